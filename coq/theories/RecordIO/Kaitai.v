(* Semantics of the Kaitai schema kaitai/recordio_v4.ksy (and its generated Go reader):
   file header, then records until end of stream.  The payload length expression, the magic
   contents and the compression enum are NOT written here: they come from gen/FactsKsy.v, which
   is regenerated from the .ksy on every run. *)
From GoSST Require Import Base.Bytes RecordIO.Format.
From GoSSTGen Require Import FactsKsy.
Local Open Scope N_scope.

(* vlq_base128_le: groups until a byte without the continuation bit *)
Fixpoint vlq_groups (fuel : nat) (l : bytes) : option (list N * bytes) :=
  match fuel with
  | O => None
  | S f =>
      match l with
      | [] => None
      | b :: r =>
          if b <? 128 then Some ([b], r)
          else match vlq_groups f r with
               | Some (gs, r') => Some (N.land b 127 :: gs, r')
               | None => None
               end
      end
  end.

(* the schema's value instance adds up at most eight groups *)
Fixpoint vlq_sum (n : nat) (shift : N) (gs : list N) : N :=
  match n, gs with
  | S n', g :: r => N.shiftl g shift + vlq_sum n' (shift + 7) r
  | _, _ => 0
  end.
Definition vlq_value (gs : list N) : N := vlq_sum 8 0 gs.

Definition vlq (l : bytes) : option (N * bytes) :=
  match vlq_groups (S (length l)) l with
  | Some (gs, r) => Some (vlq_value gs, r)
  | None => None
  end.

Record ks_record := mkKs { k_nil : N; k_usz : N; k_csz : N; k_crc : N; k_payload : bytes }.

Definition ks_read_record (ct : N) (l : bytes) : option (ks_record * bytes) :=
  if negb (bytes_eqb (firstn 3 l) ksy_magic) then None else
  match skipn 3 l with
  | [] => None
  | rnil :: l1 =>
      match vlq l1 with
      | None => None
      | Some (usz, l2) =>
          match vlq l2 with
          | None => None
          | Some (csz, l3) =>
              match vlq l3 with
              | None => None
              | Some (crc, l4) =>
                  let n := ksy_len_payload rnil usz csz ct in
                  if lenN l4 <? n then None
                  else Some (mkKs rnil usz csz crc (firstn (N.to_nat n) l4), skipn (N.to_nat n) l4)
              end
          end
      end
  end.

Fixpoint ks_records (fuel : nat) (ct : N) (l : bytes) : option (list ks_record) :=
  match fuel with
  | O => None
  | S f =>
      match l with
      | [] => Some []
      | _ => match ks_read_record ct l with
             | Some (r, rest) =>
                 match ks_records f ct rest with Some rs => Some (r :: rs) | None => None end
             | None => None
             end
      end
  end.

(* returns version, compression code, records; None = the parse fails *)
Definition ks_parse (f : bytes) : option (N * N * list ks_record) :=
  if lenN f <? 8 then None else
  let v := rd32 (sub f 0 4) in
  let ct := rd32 (sub f 4 4) in
  match ks_records (S (length f)) ct (skipn 8 f) with
  | Some rs => Some (v, ct, rs)
  | None => None
  end.
