(* C04 - RecordIO returns written records unchanged through every reader and access path.
   Only the property theorems (closed by exact) and their assumptions.
   Quantification: every codec with decomp (comp x) = Ok x (hence each compression type),
   every writer program with seeks back to surviving boundaries, every reader program,
   every byte string / offset / scan window >= 4 for SeekNext.  Buffer sizes do not occur in the
   model: their irrelevance is checked by the correspondence (DESIGN section 6, C04). *)
From GoSST Require Import Base.Bytes RecordIO.Format RecordIO.Writer RecordIO.SeqReader RecordIO.MmapReader.
From GoSST Require Import Base.CodeFacts.
From GoSSTGen Require Import FactsCode.
From GoSST Require Import RecordIO.FormatFacts RecordIO.WriteReadFacts RecordIO.SeekFacts.
Local Open Scope N_scope.

Theorem C04_write_then_read :
  forall (c : codec), (forall x, decomp c (comp c x) = Ok x) -> ctype c <= 3 ->
  forall ops fuel,
    prog_ok c ops 8 [] = true -> Forall (op_ok c) ops -> (length (surv c ops) < fuel)%nat ->
    r_open (written c ops) = Ok 8
    /\ read_all fuel c (written c ops) 8 = map (fun p => Ok (snd p)) (surv c ops) ++ [Err EOF].
Proof. exact write_then_read. Qed.
(* the constructors the two sides call in the source, re-read on every run *)
Theorem C04_header_checksum_same_on_both_sides :
  header_crc_writer_castagnoli = true /\ header_crc_reader_castagnoli = true.
Proof. pose proof hash_facts as H; split; apply H. Qed.

Print Assumptions C04_write_then_read.

Theorem C04_offsets_are_addresses :
  forall (c : codec), (forall x, decomp c (comp c x) = Ok x) -> ctype c <= 3 ->
  forall ops,
    prog_ok c ops 8 [] = true -> Forall (op_ok c) ops ->
    forall off r, In (off, r) (surv c ops) -> read_at c (written c ops) off = Ok r.
Proof. exact offsets_are_addresses. Qed.
Print Assumptions C04_offsets_are_addresses.

Theorem C04_size_is_end :
  forall (c : codec), (forall x, decomp c (comp c x) = Ok x) -> ctype c <= 3 ->
  forall ops,
    prog_ok c ops 8 [] = true -> Forall (op_ok c) ops ->
    written c ops = file_hdr (ctype c) ++ flat_map (fun p => enc_rec c (snd p)) (surv c ops)
    /\ w_size (fst (w_run c ops (w_open c))) = lenN (written c ops).
Proof. exact (fun c _ Hct => written_is_concat c Hct). Qed.
Print Assumptions C04_size_is_end.

Theorem C04_skip_is_read_discard :
  forall (c : codec), (forall x, decomp c (comp c x) = Ok x) -> ctype c <= 3 ->
  forall ops prog,
    prog_ok c ops 8 [] = true -> Forall (op_ok c) ops ->
    read_mixed c (written c ops) 8 prog = mix prog (map snd (surv c ops)).
Proof. exact skip_is_read_discard. Qed.
Print Assumptions C04_skip_is_read_discard.

(* SeekNext: for EVERY byte string, not only written files *)
Theorem C04_seek_next_first :
  forall (c : codec) (seekLen : N) (f : bytes) (off : N),
  4 <= seekLen -> off <= lenN f ->
  match seek_next c seekLen f off with
  | Ok (o, r) =>
      off <= o /\ acceptable c f o = true /\ read_at c f o = Ok r
      /\ (forall o', off <= o' -> o' < o -> acceptable c f o' = false)
  | Err EOF => forall o', off <= o' -> acceptable c f o' = false
  | Err _ => False
  end.
Proof. exact seek_next_first. Qed.
Print Assumptions C04_seek_next_first.

Theorem C04_seek_next_written :
  forall (c : codec) (seekLen : N) (f : bytes) (recs : list (N * option bytes)) (off : N),
  4 <= seekLen -> off <= lenN f ->
  (forall pre o r post, recs = pre ++ (o, r) :: post -> Forall (fun p => fst p < o) pre) ->
  (forall o r, In (o, r) recs -> acceptable c f o = true /\ read_at c f o = Ok r) ->
  (forall o, acceptable c f o = true -> In o (map fst recs)) ->
  seek_next c seekLen f off =
    match first_at_or_after off recs with Some p => Ok p | None => Err EOF end.
Proof. exact seek_next_written. Qed.
Print Assumptions C04_seek_next_written.
Print Assumptions C04_header_checksum_same_on_both_sides.

(* F-C04e (known finding): the documented promise "SeekNext returns the first record that STARTS at
   or after the offset" does not hold - a payload containing the complete image of a record makes
   SeekNext return a position inside that payload, where no record was written. *)
Theorem C04_seek_next_embedded_refuted :
  exists (c : codec) (ops : list wop) (seekLen off o : N) (r : option bytes),
    (forall x, decomp c (comp c x) = Ok x) /\ ctype c <= 3
    /\ prog_ok c ops 8 [] = true /\ Forall (op_ok c) ops
    /\ 4 <= seekLen /\ off <= lenN (written c ops)
    /\ seek_next c seekLen (written c ops) off = Ok (o, r)
    /\ ~ In o (map fst (surv c ops))
    /\ (exists o' r', In (o', r') (surv c ops) /\ off <= o').
Proof. exact seek_next_embedded_refuted. Qed.
Print Assumptions C04_seek_next_embedded_refuted.
