(* C11 - I/O failures during merge, compaction and flush are reported, never absorbed.
   Only the property theorems (closed by exact) and their assumptions. *)
From GoSST Require Import Base.Bytes Struct.Heap SST.Merge SST.MergeFacts.
From GoSST Require Import Fs.OrderFacts.
From GoSST Require SST.TableReader SST.DamageTableFacts RecordIO.Format.
From GoSSTGen Require Import FactsCode.
Local Open Scope N_scope.

(* a failing read of ANY input record makes both merges fail, whatever the writer does *)
Theorem C11_merge_reports_input_fault :
  forall St (w : sink St) (inputs : list mstream) (s : St),
  (exists i e, In i inputs /\ In (Err e) i) ->
  (exists e, snd (merge w inputs s) = Err e)
  /\ (forall reduce, exists e, snd (merge_compact reduce w inputs s) = Err e).
Proof. exact @merge_reports_input_fault. Qed.
(* an incomplete merged table is never declared successful: in the source the merge and the Close of the
   merged table (whose error is checked) come before the success flag is written; re-read on every run *)
Theorem C11_success_flag_after_close :
  compaction_merge_before_flag = Some true /\ compaction_writer_closed_before_flag = Some true.
Proof. pose proof order_facts as H; split; apply H. Qed.

Print Assumptions C11_merge_reports_input_fault.

(* MergeCompact = feed the merged sequence to the writer, stop at its first error: a failed write
   is reported, and success means the writer received the complete fault-free output *)
Theorem C11_merge_compact_is_feed :
  forall St (reduce : reduce_fn) (w : sink St) (tables : list table) (s : St),
  Forall tsorted tables ->
  merge_compact reduce w (map as_stream tables) s
  = feed w s (map (fun kv => (fst kv, Some (snd kv))) (fst (scan_merged reduce (map as_stream tables)))).
Proof. exact @merge_compact_is_feed. Qed.
Print Assumptions C11_merge_compact_is_feed.

Theorem C11_merge_is_feed_disjoint :
  forall St (w : sink St) (tables : list table) (s : St),
  Forall tsorted tables -> disjoint_keys tables ->
  merge w (map as_stream tables) s = feed w s (union_latest tables).
Proof. exact @merge_disjoint_union. Qed.
Print Assumptions C11_merge_is_feed_disjoint.
Print Assumptions C11_success_flag_after_close.

(* the read of an input record fails - and is not answered with nil, which a merge would write as a tombstone - when
   the index names a value offset at or behind the end of the data file (a data file that lost its tail), under every
   reader option (until fix 3f24fb5 the real reader answered nil here; harness witness
   corpus/C11_fixed_seek_iterator_cut_at_boundary.json) *)
Theorem C11_lost_value_is_a_read_error :
  forall (r : SST.TableReader.reader) (off crc : N) (skip : bool),
  RecordIO.Format.lenN (SST.TableReader.r_data r) <= off -> exists e, SST.TableReader.get_value_at r off crc skip = Err e.
Proof. exact SST.DamageTableFacts.offset_behind_data_is_error. Qed.
Print Assumptions C11_lost_value_is_a_read_error.

(* a flush or compaction that fails on its background goroutine stops the process: in the source the failure ends in
   log.Panicf, no deferred function of the goroutine sends on a channel (such a send runs before the panic leaves the
   goroutine and parks it - until fix 49bf1c8 it did, witnesses corpus/C11_fixed_background_*.json), and the compactor
   checks the error of a cycle before anything else; re-read from the source on every run *)
Theorem C11_background_failure_stops_the_process :
  bg_flush_panic_not_parked = true /\ bg_compaction_panic_not_parked = true /\ bg_compaction_error_checked_first = true.
Proof. exact background_facts. Qed.
Print Assumptions C11_background_failure_stops_the_process.
