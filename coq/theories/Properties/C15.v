(* C15 - a table holds exactly the accepted writes, ascending, with truthful metadata.
   Only the property theorems (closed by exact) and their assumptions. *)
From GoSST Require Import Base.Bytes Base.Crc Base.ProtoWire RecordIO.Format RecordIO.Writer.
From GoSST Require Import SST.TableWriter SST.TableWriterFacts.
From Coq Require Import Sorting.Sorted.
Local Open Scope N_scope.

(* every call's verdict: rejected iff the key is not greater than the last ACCEPTED key; an
   injected append failure is reported and the call has no effect on what is accepted later *)
Theorem C15_writer_results :
  forall (ci cd : codec) (calls : list call),
  snd (tw_run calls (tw_open ci cd)) = fst (spec_run calls None).
Proof. exact writer_results. Qed.
Print Assumptions C15_writer_results.

Theorem C15_accepted_ascending :
  forall calls, StronglySorted (fun a b => bcmp (fst a) (fst b) = Lt) (accepted calls).
Proof. exact accepted_ascending. Qed.
Print Assumptions C15_accepted_ascending.

(* the closed files hold exactly the accepted pairs; failed appends leave no trace *)
Theorem C15_writer_accepts_exactly :
  forall (ci cd : codec) (calls : list call),
  calls_ok cd calls ->
  let t := tw_close (fst (tw_run calls (tw_open ci cd))) in
  let acc := accepted calls in
  tf_data t = file_hdr (ctype cd) ++ flat_map (fun kv => enc_rec cd (snd kv)) acc
  /\ tf_index t = file_hdr (ctype ci)
       ++ flat_map (fun e => enc_rec ci (Some (pb_index_entry (fst (fst e)) (snd (fst e)) (snd e)))) (entries_of cd acc 8).
Proof. exact writer_accepts_exactly. Qed.
Print Assumptions C15_writer_accepts_exactly.

Theorem C15_metadata_truthful :
  forall (ci cd : codec) (calls : list call),
  calls_ok cd calls ->
  let t := tw_close (fst (tw_run calls (tw_open ci cd))) in
  let acc := accepted calls in
  tf_num t = N.of_nat (length acc)
  /\ tf_nulls t = count_nil acc
  /\ tf_min t = option_map fst (hd_error acc)
  /\ tf_max t = option_map fst (hd_error (rev acc))
  /\ tf_data_bytes t = lenN (tf_data t)
  /\ tf_index_bytes t = lenN (tf_index t).
Proof. exact metadata_truthful. Qed.
Print Assumptions C15_metadata_truthful.
