(* C06 - compaction never changes what a key reads as; deleted keys stay deleted; the selected
   subset is a gap-free run in age order. *)
From GoSST Require Import Base.Bytes Db.Logical Db.LogicalFacts.

(* floodFill, as the loops are written, yields exactly the run between the first and the last
   pre-selected table: same length, superset of the pre-selection, no gaps *)
Theorem C06_flood_fill_contiguous : forall a : list bool, flood_fill a = flood_spec a.
Proof. exact flood_fill_contiguous. Qed.
Print Assumptions C06_flood_fill_contiguous.

Theorem C06_flood_fill_props :
  forall a : list bool,
  length (flood_fill a) = length a
  /\ (forall i, nth i a false = true -> nth i (flood_fill a) false = true)
  /\ (forall i j k, (i <= j <= k)%nat -> nth i (flood_fill a) false = true -> nth k (flood_fill a) false = true ->
        nth j (flood_fill a) false = true).
Proof. exact flood_fill_props. Qed.
Print Assumptions C06_flood_fill_props.

(* one cycle, any thresholds / max size / ratio, any table sizes - hence any selected run,
   including runs that exclude the oldest table - leaves every key's read unchanged *)
Theorem C06_compaction_preserves_reads :
  forall (c : cfg) (sizes : list N) (s : db) (k : bytes),
  Inv s -> db_get (fst (db_compact c sizes s)) k = db_get s k.
Proof. exact compaction_preserves_reads. Qed.
Print Assumptions C06_compaction_preserves_reads.

(* ... and keeps doing so: the invariant is preserved by every step, so the statement applies again
   after later flushes, cycles and restarts *)
Theorem C06_invariant_preserved : forall s st, Inv s -> Inv (fst (db_step s st)).
Proof. exact inv_step. Qed.
Print Assumptions C06_invariant_preserved.

Theorem C06_deleted_stays_deleted :
  forall (before after : list dstep) (k : bytes),
  forallb (fun st => negb (touches k st)) after = true ->
  db_get (fst (db_run db_empty (before ++ SDelete (Some k) :: after))) k = None.
Proof. exact deleted_stays_deleted. Qed.
Print Assumptions C06_deleted_stays_deleted.
