(* C01 - SimpleDB reads like a map, whatever flushes, compactions and restarts happen.
   The theorem quantifies over every program of Put / Delete / Get / Rotate(+flush) / Compact /
   Reopen steps: rotations, compaction cycles with ANY configuration and ANY table sizes (hence any
   selectable run) and restarts may be placed anywhere.  Cycles are total functions of the logical
   machine; that a real cycle never fails on such workloads is checked on the implementation side
   (every cycle result is an observable of the correspondence). *)
From GoSST Require Import Base.Bytes Db.Logical Db.LogicalFacts.

Theorem C01_db_refines_map :
  forall steps : list dstep,
  let '(s, outs) := db_run db_empty steps in
  let '(m, souts) := spec_run s_empty steps in
  Forall2 out_same outs souts /\ (forall k, db_get s k = m k) /\ Inv s.
Proof. exact db_refines_map. Qed.
Print Assumptions C01_db_refines_map.
