(* C16 - skip-list map and merge heap behave as a sorted map and a sorted k-way merge.
   This file contains only the property theorems (closed by exact) and their assumptions. *)
From GoSST Require Import Base.Bytes Base.Order Struct.SkipList Struct.Heap.
From GoSST Require Import Struct.SkipListFacts Struct.HeapFacts.
From Coq Require Import Sorting.Sorted Sorting.Permutation.

Theorem C16_skiplist_sorted_map :
  forall (K V : Type) (cmp : K -> K -> comparison), cmp_laws cmp ->
  forall l : list (K * V * nat),
    keys_distinct l -> Forall (fun x => 1 <= snd x)%nat l ->
    exists m,
      inserts cmp l [] = Some m
      /\ size m = length l
      /\ StronglySorted (fun a b => cmp (fst a) (fst b) = Lt) (kvs m)
      /\ Permutation (kvs m) (map fst l)
      /\ (forall key, get cmp key m = assoc cmp key (kvs m))
      /\ (forall key, contains cmp key m = match assoc cmp key (kvs m) with Some _ => true | None => false end)
      /\ scan_all cmp m = kvs m
      /\ (forall key, scan_from cmp key m = filter (ge_key cmp key) (kvs m))
      /\ (forall lo hi, cmp lo hi <> Gt ->
            scan_between cmp lo hi m = Some (filter (fun kv => ge_key cmp lo kv && le_key cmp hi kv) (kvs m)))
      /\ (forall lo hi, cmp lo hi = Gt -> scan_between cmp lo hi m = None).
Proof. intros K V cmp L. exact (skiplist_sorted_map cmp L). Qed.
Print Assumptions C16_skiplist_sorted_map.

Theorem C16_heap_merge_sorted :
  forall (K V : Type) (cmp : K -> K -> comparison), cmp_laws cmp ->
  forall its : list (N * @stream K V),
    NoDup (map fst its) ->
    Forall (fun p => all_ok (snd p) /\ nondesc cmp (oks (snd p))) its ->
    exists out,
      merge_all cmp its = Ok out
      /\ out_nondesc cmp out
      /\ (forall c s, In (c, s) its -> of_ctx c out = oks s)
      /\ Forall (fun x => In (snd x) (map fst its)) out
      /\ length out = total_len its.
Proof. intros K V cmp L. exact (heap_merge_sorted cmp L). Qed.
Print Assumptions C16_heap_merge_sorted.

Theorem C16_heap_merge_error :
  forall (K V : Type) (cmp : K -> K -> comparison), cmp_laws cmp ->
  forall its : list (N * @stream K V),
    (exists c s e, In (c, s) its /\ In (Err e) s) ->
    exists e, merge_all cmp its = Err e.
Proof. intros K V cmp _. exact (heap_merge_error cmp). Qed.
Print Assumptions C16_heap_merge_error.
