(* C05 - Concurrent Get/Put/Delete are linearizable while flushes and compactions run.
   The concurrent machine (Db/Conc.v) runs any number of client threads against the logical database
   with the flusher and the compactor as further actors; the granularity of its actions is the lock
   discipline of the code, which is read off the Go syntax trees on every run (C05_lock_discipline:
   if a lock or the order 'tables before memstores' disappears from the source this obligation
   breaks).  Linearizability is stated with the canonical atomic-object automaton (Conc.Lin): every
   history of every schedule, of any length, with any number of threads, with rotations, table
   installations and compaction selections/reflections interleaved anywhere the locks permit, is a
   trace of the single-copy map.  Real histories are tied to this by the porcupine stage of the
   harness (recorded invocation/response histories of the implementation must be linearizable
   with respect to the same map specification) and, step for step in sequential runs, by the
   C01/C06/C17 correspondence of the same logical machine. *)
From GoSST Require Import Base.Bytes Db.Logical Db.Conc Db.ConcFacts.
From GoSST Require Fs.OrderFacts.
From Coq Require Import String.
From GoSSTGen Require Import FactsCode.

Theorem C05_lock_discipline :
  put_takes_write_lock = true /\ delete_takes_write_lock = true /\ get_takes_read_lock = true /\
  get_tables_before_memstore = Some true /\ reflect_takes_db_lock_first = Some true /\
  memstore_users = "DeleteBytes,GetBytes,PutBytes,replayAndSetupWriteAheadLog,swapMemstore"%string /\
  memstore_swappers = "replayAndSetupWriteAheadLog,rotateWalAndFlushMemstore"%string /\
  memstore_rotators = "Close,PutBytes"%string.
Proof. exact lock_facts. Qed.

Theorem C05_histories_linearizable :
  forall (acts : list action) (s : cstate),
  crun c_init acts = Some s -> linearizable (history c_init acts).
Proof. exact histories_linearizable. Qed.

(* the linearization points: the write-locked body of Put/Delete, the memstore read of Get *)
Theorem C05_linearization_points :
  forall (acts : list action) (s : cstate),
  crun c_init acts = Some s -> legal kv_empty (lin_points c_init acts).
Proof. exact lin_points_legal. Qed.

Theorem C05_final_state_is_map :
  forall (acts : list action) (s : cstate),
  crun c_init acts = Some s ->
  forall k, db_get (c_db s) k = fold_left (fun m e => fst (kv_step m (snd (fst e)))) (lin_points c_init acts) kv_empty k.
Proof. exact final_state_is_map. Qed.

Print Assumptions C05_lock_discipline.
Print Assumptions C05_histories_linearizable.
Print Assumptions C05_linearization_points.
Print Assumptions C05_final_state_is_map.

(* the record of a mutation is appended to the log inside the write-locked section that applies it *)
Theorem C05_log_append_under_write_lock :
  put_log_append_under_write_lock = Some true /\ delete_log_append_under_write_lock = Some true.
Proof. exact OrderFacts.log_under_lock_facts. Qed.
Print Assumptions C05_log_append_under_write_lock.
