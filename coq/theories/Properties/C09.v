(* C09 - a damaged SSTable data file is detected, never served as different data.
   The theorems quantify over ARBITRARY data-file bytes (any damage whatsoever).
   From "same CRC-64" to "same value" for arbitrary damage is a 2^-64 collision statement and is
   not claimed; for single-byte payload damage it is proved outright (burst lemma). *)
From GoSST Require Import Base.Bytes Base.Crc RecordIO.Format RecordIO.MmapReader.
From GoSST Require Import Base.CodeFacts.
From GoSSTGen Require Import FactsCode.
From GoSST Require Import SST.TableWriter SST.Index SST.TableReader SST.DamageTableFacts.
Local Open Scope N_scope.

Theorem C09_checked_read_same_crc :
  forall (r : reader) (off crc : N) (v : option bytes),
  get_value_at r off crc false = Ok v -> crc64iso (payload_of v) = crc \/ crc = 0.
Proof. exact checked_read_same_crc. Qed.
(* the constructors the two sides call in the source, re-read on every run *)
Theorem C09_value_checksum_same_on_both_sides :
  value_crc_writer_iso = true /\ value_crc_reader_iso = true.
Proof. pose proof hash_facts as H; split; apply H. Qed.

Print Assumptions C09_checked_read_same_crc.

Theorem C09_load_validates_all :
  forall (ld : loader) (ci cd : codec) (index_file data_file : bytes) bloom (r : reader),
  open_reader ld ci cd index_file data_file bloom false false = Ok r ->
  forall es, idx_all r = Ok es ->
  forall e, In e es ->
  exists v, get_value_at r (snd (fst e)) (snd e) true = Ok v
            /\ (crc64iso (payload_of v) = snd e \/ snd e = 0).
Proof. exact load_validates_all. Qed.
Print Assumptions C09_load_validates_all.

Theorem C09_single_byte_damage_rejected :
  forall (r : reader) (off : N) (pre post : bytes) (b b' : N),
  Forall (fun x => x < 256) pre -> Forall (fun x => x < 256) post -> b < 256 -> b' < 256 -> b <> b' ->
  crc64iso (pre ++ b :: post) <> 0 ->
  read_at (r_cd r) (r_data r) off = Ok (Some (pre ++ b' :: post)) ->
  get_value_at r off (crc64iso (pre ++ b :: post)) false = Err ValueChecksum.
Proof. exact damaged_value_rejected. Qed.
Print Assumptions C09_single_byte_damage_rejected.
Print Assumptions C09_value_checksum_same_on_both_sides.

(* The hypothesis "the indexed checksum is not zero" in the theorems above cannot be dropped: zero marks
   "no checksum" (empty and nil values, legacy tables) but it is also the CRC-64/ISO of non-empty values such as
   f4 42 2f f4 42 2f f4 12; for such a value the per-read check accepts whatever the data file holds at its offset.
   Replayed on the implementation as finding F-C09a (open: repairing it needs a format decision). *)
Theorem C09_zero_checksum_refuted :
  crc0_value <> [] /\ crc64iso crc0_value = 0 /\
  forall (r : reader) (off : N) (v' : option bytes),
    read_at (r_cd r) (r_data r) off = Ok v' -> get_value_at r off (crc64iso crc0_value) false = Ok v'.
Proof. exact (conj (proj1 crc0_value_facts) (conj (proj2 crc0_value_facts) zero_checksum_value_unprotected)). Qed.
Print Assumptions C09_zero_checksum_refuted.
