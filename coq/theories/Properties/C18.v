(* C18 - Documented concurrent use is data-race free and gives single-threaded answers.
   PARTIAL by nature: absence of data races is a property of the Go memory model and is decided by
   the race detector on the implementation (harness c18.go), not by a theorem.  What the models
   carry is the logic that makes each call's answer independent of the others:
   (1) database: in EVERY schedule of the concurrent machine (Db/Conc.v; any number of threads,
       rotations, installs, compactions interleaved) a key written by one thread only reads - for
       every thread - as that thread's own operations linearized so far have left it, and each
       thread's operations take effect in its program order; so a goroutine working on its own keys
       sees exactly its single-threaded answers, and keys nobody writes read the same forever.
       This is the oracle of the database stage of the harness.
   (2) readers: calls on one reader handle share a buffer pool; in EVERY interleaving of the
       sub-steps (take buffer, fill from the immutable mapping, decode/copy out, give back) of any
       number of calls, every call is answered exactly as alone.  The sequential answer itself is
       the reader model of C04/C12/C03 (functions of the file bytes only).
   Not modelled: the Go runtime, the mmap package, the compressors' internal state, sync.Pool
   internals - these are covered by the race detector and the differential comparison only. *)
From GoSST Require Import Base.Bytes Db.Logical Db.Conc Db.ConcFacts Db.OwnedFacts Conc.Pool Conc.PoolFacts.
Local Open Scope N_scope.

Theorem C18_owned_key_reads_own_writes_partial :
  forall (acts : list action) (s : cstate) (t : N) (k : bytes),
  crun c_init acts = Some s ->
  only_writer t k (lin_points c_init acts) ->
  forall pre t' v post, lin_points c_init acts = pre ++ (t', CGet k, RGet v) :: post ->
  v = own_view t k pre.
Proof. exact owned_key_reads_own_writes. Qed.

Theorem C18_program_order_kept_partial :
  forall (acts : list action) (t : N),
  is_prefix (map (fun e => snd (fst e)) (filter (fun e => fst (fst e) =? t) (lin_points c_init acts)))
            (invoked_by t c_init acts).
Proof. exact program_order_kept. Qed.

Theorem C18_pooled_calls_answer_as_alone_partial :
  forall (R : Type) (window : N -> bytes) (decode : bytes -> R) (acts : list pact),
  Forall (fun a => snd a = decode (window (snd (fst a)))) (panswers R window decode (p_init R) acts).
Proof. exact pooled_calls_answer_as_alone. Qed.

Print Assumptions C18_owned_key_reads_own_writes_partial.
Print Assumptions C18_program_order_kept_partial.
Print Assumptions C18_pooled_calls_answer_as_alone_partial.
