(* C20 - the published Kaitai schema decodes every written file to the same records.
   Only the property theorems (closed by exact) and their assumptions. *)
From GoSST Require Import Base.Bytes RecordIO.Format RecordIO.Kaitai RecordIO.KaitaiFacts.
From GoSSTGen Require Import FactsKsy FactsConst.
From Coq Require Import String.
Local Open Scope N_scope.

Theorem C20_kaitai_agrees :
  forall (c : codec), ctype c <= 3 ->
  forall (rs : list (option bytes)),
    Forall (ksize_ok c) rs ->
    exists krs,
      ks_parse (file_hdr (ctype c) ++ flat_map (enc_rec c) rs) = Some (4, ctype c, krs)
      /\ Forall2 (agrees c) rs krs.
Proof. exact kaitai_agrees. Qed.
Print Assumptions C20_kaitai_agrees.

Theorem C20_enum_covers_writer :
  In (f_comp_none, "none"%string) ksy_compression_enum
  /\ In (f_comp_gzip, "gzip"%string) ksy_compression_enum
  /\ In (f_comp_snappy, "snappy"%string) ksy_compression_enum
  /\ In (f_comp_lzw, "lzw"%string) ksy_compression_enum
  /\ f_comp_none = 0 /\ f_comp_gzip = 1 /\ f_comp_snappy = 2 /\ f_comp_lzw = 3.
Proof. exact enum_covers_writer. Qed.
Print Assumptions C20_enum_covers_writer.
