(* C08 - merging or stacking tables equals the latest-wins union of their contents.
   Only the property theorems (closed by exact) and their assumptions. *)
From GoSST Require Import Base.Bytes Struct.Heap SST.TableReader SST.Merge SST.MergeFacts SST.Super SST.SuperFacts.
Local Open Scope N_scope.

Theorem C08_merge_compact_latest_wins :
  forall tables : list table, Forall tsorted tables ->
  scan_merged reduce_latest_wins (map as_stream tables) = (live (union_latest tables), None).
Proof. exact merge_compact_latest_wins. Qed.
Print Assumptions C08_merge_compact_latest_wins.

Theorem C08_merge_compact_skip_tombstones :
  forall tables : list table, Forall tsorted tables ->
  scan_merged reduce_latest_wins_skip_tombstones (map as_stream tables) = (live_nonempty (union_latest tables), None).
Proof. exact merge_compact_skip_tombstones. Qed.
Print Assumptions C08_merge_compact_skip_tombstones.

(* the union is ascending with each key once, and its value is that of the newest table holding the key *)
Theorem C08_union_is_latest_wins :
  forall tables k, Forall tsorted tables ->
  tsorted (union_latest tables) /\ t_get k (union_latest tables) = newest_value k (rev tables).
Proof. intros tables k H. split; [exact (union_latest_sorted tables H)|exact (union_latest_get tables k H)]. Qed.
Print Assumptions C08_union_is_latest_wins.

Theorem C08_no_cross_attribution :
  forall (tables : list table) k v, Forall tsorted tables ->
  In (k, v) (fst (scan_merged reduce_latest_wins (map as_stream tables))) ->
  exists t, In t tables /\ In (k, Some v) t.
Proof. exact no_cross_attribution. Qed.
Print Assumptions C08_no_cross_attribution.

Theorem C08_merge_disjoint_union :
  forall St (w : sink St) (tables : list table) (s : St),
  Forall tsorted tables -> disjoint_keys tables ->
  merge w (map as_stream tables) s = feed w s (union_latest tables).
Proof. exact @merge_disjoint_union. Qed.
Print Assumptions C08_merge_disjoint_union.

(* stacked reader over readers that answer like their tables (C03) *)
Theorem C08_super_get :
  forall rs (tables : list table) k, Forall tsorted tables ->
  Forall2 (fun r t => rd_get r k = tget_res t k) rs tables ->
  super_get rs k = tget_res (union_latest tables) k.
Proof. exact super_get_spec. Qed.
Print Assumptions C08_super_get.

Theorem C08_super_contains :
  forall rs (tables : list table) k, Forall tsorted tables ->
  Forall2 (fun r t => rd_contains r k = Ok (match t_get k t with Some _ => true | None => false end)) rs tables ->
  super_contains rs k = Ok (match t_get k (union_latest tables) with Some _ => true | None => false end).
Proof. exact super_contains_spec. Qed.
Print Assumptions C08_super_contains.

Theorem C08_super_scan :
  forall rs (tables : list table), Forall tsorted tables ->
  Forall2 (fun r t => rd_scan r = (t, None)) rs tables ->
  super_scan rs = (live (union_latest tables), None).
Proof. exact super_scan_spec. Qed.
Print Assumptions C08_super_scan.
