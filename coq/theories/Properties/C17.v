(* C17 - a SimpleDB call that returns an error has no effect; string and byte APIs agree.
   Both API flavours are one function of the machine (the string flavour converts to bytes and
   applies the same validation): acceptance is decided by valid_put alone; a rejected call leaves
   the state unchanged; reads do not change because of a flush or a restart. The crash part of the
   property (a rejected call leaves no trace in the WAL) is checked with the crash images of C02. *)
From GoSST Require Import Base.Bytes Db.Logical Db.LogicalFacts.

Theorem C17_put_rejects_exactly :
  forall (s : db) (k v : option bytes), snd (db_put s k v) = valid_put k v.
Proof. exact put_rejects_exactly. Qed.
Print Assumptions C17_put_rejects_exactly.

Theorem C17_error_has_no_effect :
  forall (s : db) (k v : option bytes), snd (db_put s k v) = false -> fst (db_put s k v) = s.
Proof. exact error_has_no_effect. Qed.
Print Assumptions C17_error_has_no_effect.

Theorem C17_flush_preserves_reads :
  forall (s : db) (k : bytes), Inv s -> db_get (db_rotate s) k = db_get s k.
Proof. exact flush_preserves_reads. Qed.
Print Assumptions C17_flush_preserves_reads.

Theorem C17_reopen_preserves_reads :
  forall (s : db) (k : bytes), Inv s -> db_get (db_reopen s) k = db_get s k.
Proof. exact reopen_preserves_reads. Qed.
Print Assumptions C17_reopen_preserves_reads.

(* rejected calls are invisible in every later observation: the whole run refines the map in which
   they do not occur (spec_step ignores them) *)
Theorem C17_run_refines_map :
  forall steps : list dstep,
  let '(s, outs) := db_run db_empty steps in
  let '(m, souts) := spec_run s_empty steps in
  Forall2 out_same outs souts /\ (forall k, db_get s k = m k) /\ Inv s.
Proof. exact db_refines_map. Qed.
Print Assumptions C17_run_refines_map.
