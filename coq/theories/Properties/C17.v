(* C17 - a SimpleDB call that returns an error has no effect; string and byte APIs agree.
   Both API flavours are one function of the machine (the string flavour converts to bytes and
   applies the same validation): acceptance is decided by valid_put alone; a rejected call leaves
   the state unchanged; reads do not change because of a flush or a restart. The crash part of the
   property (a rejected call leaves no trace in the WAL) is checked with the crash images of C02. *)
From GoSST Require Import Base.Bytes Db.Logical Db.LogicalFacts Db.Handle Db.HandleFacts.

Theorem C17_put_rejects_exactly :
  forall (s : db) (k v : option bytes), snd (db_put s k v) = valid_put k v.
Proof. exact put_rejects_exactly. Qed.
Print Assumptions C17_put_rejects_exactly.

Theorem C17_error_has_no_effect :
  forall (s : db) (k v : option bytes), snd (db_put s k v) = false -> fst (db_put s k v) = s.
Proof. exact error_has_no_effect. Qed.
Print Assumptions C17_error_has_no_effect.

Theorem C17_flush_preserves_reads :
  forall (s : db) (k : bytes), Inv s -> db_get (db_rotate s) k = db_get s k.
Proof. exact flush_preserves_reads. Qed.
Print Assumptions C17_flush_preserves_reads.

Theorem C17_reopen_preserves_reads :
  forall (s : db) (k : bytes), Inv s -> db_get (db_reopen s) k = db_get s k.
Proof. exact reopen_preserves_reads. Qed.
Print Assumptions C17_reopen_preserves_reads.

(* rejected calls are invisible in every later observation: the whole run refines the map in which
   they do not occur (spec_step ignores them) *)
Theorem C17_run_refines_map :
  forall steps : list dstep,
  let '(s, outs) := db_run db_empty steps in
  let '(m, souts) := spec_run s_empty steps in
  Forall2 out_same outs souts /\ (forall k, db_get s k = m k) /\ Inv s.
Proof. exact db_refines_map. Qed.
Print Assumptions C17_run_refines_map.

(* the life cycle of a handle (Db/Handle.v: the open / closed flags every call tests first): a refused call - before
   Open, after Close, a second Open - changes neither the flags nor the content *)
Theorem C17_refused_call_has_no_effect :
  forall (h : handle) (c : hcall) (e : herr), snd (h_step h c) = HRefused e -> fst (h_step h c) = h.
Proof. exact refused_call_has_no_effect. Qed.
Print Assumptions C17_refused_call_has_no_effect.

(* and whatever refused calls surround them, the calls between the Open and the Close of a handle answer exactly as the
   program of the logical database on the recovered content; everything before is refused with ErrNotOpenedYet,
   everything after with ErrAlreadyClosed (a further Open: ErrAlreadyOpen; a Put with an empty or nil key or value is
   refused as such in every state, its arguments are looked at first - [outside]) *)
Theorem C17_handle_life :
  forall (stored : db) (pre window post : list hcall),
  Forall (fun c => c <> HOpen) pre -> Forall (fun c => c <> HClose) window ->
  let opened := db_reopen stored in
  h_run (handle_new stored) (pre ++ [HOpen] ++ window ++ [HClose] ++ post)
  = (mkHandle true true (db_reopen (fst (window_outs opened window))),
     map (outside ENotOpenedYet) pre ++ [HDone ODone] ++ snd (window_outs opened window) ++ [HDone ODone]
     ++ map (outside EAlreadyClosed) post).
Proof. exact handle_life. Qed.
Print Assumptions C17_handle_life.
