(* C03 - an SSTable returns exactly what was written, for every index type and option.
   One theorem per index loader, each for every pair of codecs with decomp (comp x) = x (hence
   the 4 x 4 compression pairs) and every bloom filter without false negatives; buffer sizes do
   not occur in the model (checked by the correspondence).  The map loader's statement is
   restricted to keys of exactly the mapper width: in general it is false (F-C03c, open finding),
   exhibited by C03_map_index_refuted. *)
From GoSST Require Import Base.Bytes Base.ProtoWire RecordIO.Format RecordIO.SeekFacts.
From GoSST Require Import Base.CodeFacts.
From GoSSTGen Require Import FactsCode.
From GoSST Require Import SST.TableWriter SST.Index SST.IndexFacts SST.TableReader SST.TableReaderFacts SST.DiskIndexFacts.
Local Open Scope N_scope.

Theorem C03_table_is_sorted_map_slice :
  forall (ci cd : codec),
  (forall x, decomp ci (comp ci x) = Ok x) -> (forall x, decomp cd (comp cd x) = Ok x) ->
  ctype ci <= 3 -> ctype cd <= 3 ->
  forall kvs : tpairs,
  psorted kvs -> Forall (pair_ok ci cd) kvs -> Forall val_ok kvs -> file_ok cd kvs ->
  exists r, open_table LSlice (write_table ci cd kvs) ci cd = Ok r /\ behaves_as_sorted_map r kvs.
Proof. exact table_is_sorted_map_slice. Qed.
(* the constructors the two sides call in the source, re-read on every run *)
Theorem C03_bloom_hash_same_on_both_sides :
  bloom_hash_writer = bloom_hash_reader.
Proof. apply hash_facts. Qed.

Print Assumptions C03_table_is_sorted_map_slice.

Theorem C03_table_is_sorted_map_skiplist :
  forall (ci cd : codec),
  (forall x, decomp ci (comp ci x) = Ok x) -> (forall x, decomp cd (comp cd x) = Ok x) ->
  ctype ci <= 3 -> ctype cd <= 3 ->
  forall kvs : tpairs,
  psorted kvs -> Forall (pair_ok ci cd) kvs -> Forall val_ok kvs -> file_ok cd kvs ->
  exists r, open_table LSkipList (write_table ci cd kvs) ci cd = Ok r /\ behaves_as_sorted_map r kvs.
Proof. exact table_is_sorted_map_skiplist. Qed.
Print Assumptions C03_table_is_sorted_map_skiplist.

Theorem C03_table_is_sorted_map_disk :
  forall (ci cd : codec),
  (forall x, decomp ci (comp ci x) = Ok x) -> (forall x, decomp cd (comp cd x) = Ok x) ->
  ctype ci <= 3 -> ctype cd <= 3 ->
  forall (sl : N) (kvs : tpairs),
  4 <= sl ->
  psorted kvs -> Forall (pair_ok ci cd) kvs -> Forall val_ok kvs -> file_ok cd kvs ->
  no_embedded ci cd kvs ->
  exists r, open_table (LDisk sl) (write_table ci cd kvs) ci cd = Ok r /\ behaves_as_sorted_map r kvs.
Proof. exact table_is_sorted_map_disk. Qed.
Print Assumptions C03_table_is_sorted_map_disk.

Theorem C03_table_is_sorted_map_map_fixed_width :
  forall (ci cd : codec),
  (forall x, decomp ci (comp ci x) = Ok x) -> (forall x, decomp cd (comp cd x) = Ok x) ->
  ctype ci <= 3 -> ctype cd <= 3 ->
  forall (w : nat) (kvs : tpairs),
  psorted kvs -> Forall (pair_ok ci cd) kvs -> Forall val_ok kvs -> file_ok cd kvs ->
  Forall (fun kv => length (fst kv) = w) kvs ->
  exists r, open_table (LMap w) (write_table ci cd kvs) ci cd = Ok r
    /\ (forall k, length k = w -> rd_contains r k = Ok (spec_contains kvs k))
    /\ (forall k, length k = w -> rd_get r k = spec_get kvs k)
    /\ rd_scan r = (kvs, None)
    /\ (forall a, rd_scan_from r a = (spec_from kvs a, None))
    /\ (forall a b, bcmp a b <> Gt -> rd_scan_range r a b = Some (spec_range kvs a b, None))
    /\ (forall a b, bcmp a b = Gt -> rd_scan_range r a b = None).
Proof. exact table_is_sorted_map_map. Qed.
Print Assumptions C03_table_is_sorted_map_map_fixed_width.

(* F-C03c: for keys shorter than the mapper width the map index finds unwritten keys *)
Theorem C03_map_index_refuted :
  exists w es key, esorted es /\ (length key <= w)%nat /\ Forall (fun e => (length (ikey e) <= w)%nat) es
    /\ has_key es key = false /\ map_get w es key None <> None.
Proof. exact map_get_refuted. Qed.
Print Assumptions C03_map_index_refuted.

(* no bloom-filter false negative, and false positives are harmless *)
Theorem C03_bloom_false_positives_harmless :
  forall (ci cd : codec),
  (forall x, decomp ci (comp ci x) = Ok x) -> (forall x, decomp cd (comp cd x) = Ok x) ->
  ctype ci <= 3 -> ctype cd <= 3 ->
  forall (kvs : tpairs) (bloom : bytes -> bool),
  psorted kvs -> Forall (pair_ok ci cd) kvs -> Forall val_ok kvs -> file_ok cd kvs ->
  (forall kv, In kv kvs -> bloom (fst kv) = true) ->
  let t := write_table ci cd kvs in
  exists r, open_reader LSlice ci cd (tf_index t) (tf_data t) bloom false false = Ok r
    /\ (forall k, rd_contains r k = Ok (spec_contains kvs k)).
Proof. exact bloom_false_positives_harmless. Qed.
Print Assumptions C03_bloom_false_positives_harmless.
Print Assumptions C03_bloom_hash_same_on_both_sides.

(* F-C03d (known finding): without no_embedded the disk loader's theorem is false - a key that
   contains the complete image of an index record makes the binary search over byte offsets land
   inside that key; the table opens, a written key is reported absent and the scan delivers a key
   that was never written. *)
Theorem C03_disk_index_embedded_refuted :
  exists (ci cd : codec) (sl : N) (kvs : tpairs),
    (forall x, decomp ci (comp ci x) = Ok x) /\ (forall x, decomp cd (comp cd x) = Ok x)
    /\ ctype ci <= 3 /\ ctype cd <= 3
    /\ 4 <= sl
    /\ psorted kvs /\ Forall (pair_ok ci cd) kvs /\ Forall val_ok kvs /\ file_ok cd kvs
    /\ ~ no_embedded ci cd kvs
    /\ (exists r, open_table (LDisk sl) (write_table ci cd kvs) ci cd = Ok r)
    /\ (forall r, open_table (LDisk sl) (write_table ci cd kvs) ci cd = Ok r -> ~ behaves_as_sorted_map r kvs).
Proof. exact disk_index_embedded_refuted. Qed.
Print Assumptions C03_disk_index_embedded_refuted.
