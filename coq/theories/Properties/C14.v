(* C14 - the memstore behaves as a map with tombstones and flushes to an equal table.
   Only the property theorems (closed by exact) and their assumptions. *)
From GoSST Require Import Base.Bytes Base.Order Struct.SkipList Mem.MemStore Mem.MemStoreFacts.
From Coq Require Import Sorting.Sorted.
Local Open Scope N_scope.

(* every result and error, the byte-exact size estimate after every call, iteration order,
   Size, final content: all equal the reference map with tombstones (r_step / r_run) *)
Theorem C14_memstore_refines_ref :
  forall (hs : list nat) (ops : list msop),
  Forall (fun h => 1 <= h)%nat hs ->
  bounded [] ops ->
  let '(s, outs) := ms_run hs ms_empty ops in
  let '(l, routs) := r_run [] ops in
  outs = routs
  /\ kvs (ms_list s) = l
  /\ ms_iter s = l
  /\ ms_size s = length l
  /\ StronglySorted (fun a b => bcmp (fst a) (fst b) = Lt) l
  /\ ms_est s = r_bytes l.
Proof. exact memstore_refines_ref. Qed.
Print Assumptions C14_memstore_refines_ref.

(* the uint64 estimate written with wrap-around equals the unbounded sum: it never wraps below zero *)
Theorem C14_size_estimate_exact :
  forall (hs : list nat) (ops : list msop),
  Forall (fun h => 1 <= h)%nat hs ->
  bounded [] ops ->
  map snd (snd (ms_run hs ms_empty ops)) = map snd (snd (r_run [] ops)).
Proof. exact size_estimate_exact. Qed.
Print Assumptions C14_size_estimate_exact.

Theorem C14_flush_equals_ref :
  forall (hs : list nat) (ops : list msop),
  Forall (fun h => 1 <= h)%nat hs ->
  bounded [] ops ->
  let s := fst (ms_run hs ms_empty ops) in
  let l := fst (r_run [] ops) in
  ms_flush_pairs true s = l /\ ms_flush_pairs false s = filter live l.
Proof. exact flush_equals_ref. Qed.
Print Assumptions C14_flush_equals_ref.
