(* C10 - Recovery may be killed at any instant and repeated without changing the outcome.
   [rec_prog d] is recovery as the sequence of atomic effects the code performs on directory d
   (finish or discard a compaction - inputs removed before the rename; drop incomplete tables;
   replay the WAL into a new newest table; remove the WAL files oldest first; clear the WAL
   directory); [rec_cut d n] the directory after its first n effects; [rec_reach] any number of
   such interrupted attempts, each starting afresh on what the previous left.  For every directory
   a kill can leave (Reach, see C02) every such chain ends in a directory that recovers to the same
   content as the uninterrupted recovery, and the uninterrupted program ends exactly in [recover d].
   Tie: the recovery of selected crash images is itself traced and cut at every system-call boundary
   (RemoveAll runs: every subset of the unlinks, i.e. every listing order), the real Open runs on
   each nested image; the abstraction of each must recover to the same content in the model and
   each change must be one effect of the model. *)
From GoSST Require Import Base.Bytes Db.Logical Fs.Crash Fs.CrashFacts Fs.OrderFacts.
From GoSSTGen Require Import FactsCode.

Theorem C10_recovery_idempotent :
  forall d d' : disk, Reach d -> rec_reach d d' ->
  exists m m', view d = Some m /\ view d' = Some m' /\ kv_eq m m'.
Proof. exact recovery_idempotent. Qed.

Theorem C10_rec_prog_is_recover :
  forall d : disk, Reach d -> exists p d', rec_prog d = Some p /\ fs_run d p = Some d' /\ recover d = Some d'.
Proof. exact rec_prog_is_recover. Qed.

Theorem C10_order_facts :
  open_stage_order = true /\ recovery_inputs_removed_before_rename = Some true /\
  recovery_drops_incomplete_tables = true /\ recovery_flush_before_wal_removal = Some true /\
  wal_removal_sorts_names = Some true /\ recovery_wal_files_oldest_first_before_removeall = Some true.
Proof. pose proof order_facts as H. repeat split; apply H. Qed.

Print Assumptions C10_recovery_idempotent.
Print Assumptions C10_rec_prog_is_recover.
Print Assumptions C10_order_facts.
