(* C07 - WAL replay yields the appended records in order; synced appends survive a kill.
   Logical half: for every program of appends and forced rotations, every size limit.
   Crash half, byte level: the newest file cut at ANY length (a superset of the images that kill
   instants between system calls produce), older files intact: replay succeeds and delivers the
   older files' records plus exactly the records wholly contained in the cut file.  That each
   AppendSync has written and fsynced its record before it returns is an ordering property of
   system calls: it is checked on the strace of the real appender by the correspondence. *)
From GoSST Require Import Base.Bytes RecordIO.Format RecordIO.WriteReadFacts Wal.Wal Wal.WalFacts.
From GoSST Require Import Fs.OrderFacts RecordIO.BufWriter Wal.LogProgram Wal.LogBufferFacts.
From GoSSTGen Require Import FactsCode.
Local Open Scope N_scope.

Theorem C07_replay_is_appended :
  forall (c : codec), (forall x, decomp c (comp c x) = Ok x) -> ctype c <= 3 ->
  forall (max : N) (ops : list wop),
  Forall (wop_ok c) ops -> a_failed (run c max ops) = false ->
  replay c (app_files (run c max ops)) = (appended ops, None).
Proof. exact replay_is_appended. Qed.
Print Assumptions C07_replay_is_appended.

Theorem C07_files_are_numbered_groups :
  forall (c : codec), (forall x, decomp c (comp c x) = Ok x) -> ctype c <= 3 ->
  forall (max : N) (ops : list wop),
  Forall (wop_ok c) ops -> a_failed (run c max ops) = false ->
  exists groups : list (list bytes),
    map snd (app_files (run c max ops)) = map (wal_file c) groups
    /\ concat groups = appended ops
    /\ map fst (app_files (run c max ops)) = map N.of_nat (seq 0 (length groups)).
Proof. exact (fun c _ H => app_files_shape c H). Qed.
Print Assumptions C07_files_are_numbered_groups.

Theorem C07_wal_crash_prefix :
  forall (c : codec), (forall x, decomp c (comp c x) = Ok x) -> ctype c <= 3 ->
  forall (closed : list (list bytes)) (last : list bytes) (n : N),
  Forall (Forall (rec_ok c)) closed -> Forall (rec_ok c) last -> n <= lenN (wal_file c last) ->
  replay_files c (map (wal_file c) closed ++ [firstn (N.to_nat n) (wal_file c last)])
  = (concat closed ++ contained c last n, None).
Proof. exact wal_crash_prefix. Qed.
Print Assumptions C07_wal_crash_prefix.

(* what is delivered from the cut file is a prefix of its records and contains every record
   whose bytes are completely inside the cut (in particular every record written and fsynced) *)
Theorem C07_contained_is_prefix_and_complete :
  forall (c : codec), ctype c <= 3 ->
  (forall (rs : list bytes) (n : N), exists rest, rs = contained c rs n ++ rest)
  /\ (forall (pre : list bytes) (r : bytes) (post : list bytes) (n : N),
        lenN (wal_file c (pre ++ [r])) <= n ->
        exists rest, contained c (pre ++ r :: post) n = pre ++ r :: rest).
Proof. intros c H. split; [exact (contained_prefix c)|exact (contained_complete c H)]. Qed.
Print Assumptions C07_contained_is_prefix_and_complete.

(* the order of the persistence steps of the log in the source, re-read from the Go syntax trees on every run: a
   synchronous append writes, flushes, then fsyncs; Close flushes before it truncates or closes; Rotate closes the old
   file before the next one exists - which is why the cut file of C07_wal_crash_prefix is the newest one and why no
   image shows a file longer than its flushed content *)
Theorem C07_log_order_facts :
  writesync_write_before_flush = Some true /\ writesync_flush_before_fsync = Some true /\
  writer_close_flush_before_truncate = Some true /\ writer_close_flush_before_close = Some true /\
  appendsync_uses_writesync = true /\ appendsync_checks_size_first = Some true /\
  rotate_closes_before_next_file = Some true.
Proof. exact log_facts. Qed.
Print Assumptions C07_log_order_facts.

(* behind the write buffer (recordio/bufio_vendor.go, modelled in RecordIO/BufWriter.v and compared call by call with
   the real writer): when a synchronous append returns, the file holds every record appended so far, whole - for ANY
   buffer size and ANY earlier mix of synchronous and asynchronous appends *)
Theorem C07_sync_append_reaches_the_file :
  forall (c : codec) (cap : nat) (rs : list (bool * bytes)) (r : bytes),
  written_by (concat (fst (bw_run cap [] (log_ops c (rs ++ [(true, r)])))))
  = wal_file c (map snd (rs ++ [(true, r)])).
Proof. exact sync_append_reaches_the_file. Qed.
Print Assumptions C07_sync_append_reaches_the_file.

(* the appends of every log file of a session, as the rotation rule of the appender groups them ([log_groups] - what the
   correspondence feeds, file by file, to the model of writer program + write buffer to predict the write system calls),
   are exactly the files of the appender model above *)
Theorem C07_log_groups_are_the_files :
  forall (c : codec), ctype c <= 3 ->
  forall (max : N) (ops : list wop) (syncs : list bool),
  Forall (wop_ok c) ops -> a_failed (run c max ops) = false ->
  map (fun g => wal_file c (map snd g)) (log_groups c max ops syncs 8 [] [])
  = map snd (app_files (run c max ops)).
Proof. exact log_groups_are_the_files. Qed.
Print Assumptions C07_log_groups_are_the_files.
