(* C12 - a cut or header-damaged RecordIO file yields only genuine records, in order.
   Header alterations, proved without probabilistic assumption: the alterations that keep the varint
   framing, and EVERY alteration of a byte of the stored checksum varint (the header parser rejects
   non-minimal varints, so the accepted encoding of a value is unique).  The reader accepts as a
   record header only byte strings the writer produces.  The alteration that was accepted before the
   minimal-encoding check (F-C12a) is rejected now (C12_old_witness_now_rejected). *)
From GoSST Require Import Base.Bytes Base.Varint Base.Crc RecordIO.Format RecordIO.SeqReader RecordIO.MmapReader.
From GoSST Require Import Base.CodeFacts.
From GoSSTGen Require Import FactsCode.
From GoSST Require Import RecordIO.FormatFacts RecordIO.WriteReadFacts RecordIO.DamageFacts.
Local Open Scope N_scope.

Theorem C12_truncation_prefix :
  forall (c : codec), (forall x, decomp c (comp c x) = Ok x) -> ctype c <= 3 ->
  forall (rs : list (option bytes)) (n : N) fuel,
    Forall (size_ok c) rs -> 8 <= n ->
    let f := file_hdr (ctype c) ++ flat_map (enc_rec c) rs in
    n <= lenN f -> (length rs < fuel)%nat ->
    exists e, (e = EOF \/ e = UnexpectedEOF)
      /\ read_all fuel c (firstn (N.to_nat n) f) 8
         = map (fun r => Ok r) (complete_prefix c rs (n - 8)) ++ [Err e].
Proof. exact truncation_prefix. Qed.
(* the constructors the two sides call in the source, re-read on every run *)
Theorem C12_header_checksum_same_on_both_sides :
  header_crc_writer_castagnoli = true /\ header_crc_reader_castagnoli = true.
Proof. pose proof hash_facts as H; split; apply H. Qed.

Print Assumptions C12_truncation_prefix.

(* the same under every read/skip program: a record returned at step i of ANY mix of ReadNext and SkipNext over the
   cut file is record i of the written file and lies completely inside the cut (skipping a record whose payload is
   cut may itself succeed - the reader only seeks - but nothing is returned after it) *)
Theorem C12_truncation_mixed_programs :
  forall (c : codec), (forall x, decomp c (comp c x) = Ok x) -> ctype c <= 3 ->
  forall (rs : list (option bytes)) (n : N) (prog : list bool),
    Forall (size_ok c) rs -> 8 <= n ->
    let f := file_hdr (ctype c) ++ flat_map (enc_rec c) rs in
    n <= lenN f ->
    forall i x, nth_error (read_mixed c (firstn (N.to_nat n) f) 8 prog) i = Some (Ok (Some x)) ->
      nth_error rs i = Some x /\ 8 + lenN (flat_map (enc_rec c) (firstn (S i) rs)) <= n.
Proof. exact truncation_mixed. Qed.
Print Assumptions C12_truncation_mixed_programs.

Theorem C12_truncation_read_at :
  forall (c : codec), (forall x, decomp c (comp c x) = Ok x) -> ctype c <= 3 ->
  forall (rs : list (option bytes)) (n : N) pre r post,
    Forall (size_ok c) rs -> rs = pre ++ r :: post ->
    let f := file_hdr (ctype c) ++ flat_map (enc_rec c) rs in
    let off := 8 + lenN (flat_map (enc_rec c) pre) in
    n <= lenN f ->
    (off + lenN (enc_rec c r) <= n -> read_at c (firstn (N.to_nat n) f) off = Ok r)
    /\ (n < off + lenN (enc_rec c r) -> exists e, read_at c (firstn (N.to_nat n) f) off = Err e).
Proof. exact truncation_read_at. Qed.
Print Assumptions C12_truncation_read_at.

Theorem C12_header_byte_alteration_detected_partial :
  forall usz csz isnil rest j v,
  usz < 2 ^ 64 -> csz < 2 ^ 64 ->
  (j < length (hdr usz csz isnil))%nat -> v < 256 ->
  v <> nth j (hdr usz csz isnil) 0 ->
  (j = 3%nat \/ same_framing (nth j (hdr usz csz isnil) 0) v) ->
  exists e, parse_hdr (alter (hdr usz csz isnil) j v ++ rest) = Err e.
Proof. exact header_byte_alteration_detected. Qed.
Print Assumptions C12_header_byte_alteration_detected_partial.

Theorem C12_altered_header_both_readers_partial :
  forall (c : codec) pre usz csz isnil tail j v,
  usz < 2 ^ 64 -> csz < 2 ^ 64 ->
  (j < length (hdr usz csz isnil))%nat -> v < 256 ->
  v <> nth j (hdr usz csz isnil) 0 ->
  (j = 3%nat \/ same_framing (nth j (hdr usz csz isnil) 0) v) ->
  (exists e, fst (read_next c (pre ++ alter (hdr usz csz isnil) j v ++ tail) (lenN pre)) = Err e)
  /\ (exists e, read_at c (pre ++ alter (hdr usz csz isnil) j v ++ tail) (lenN pre) = Err e).
Proof.
  intros; split; [exact (altered_header_read_next c pre usz csz isnil tail j v ltac:(assumption) ltac:(assumption) ltac:(assumption) ltac:(assumption) ltac:(assumption) ltac:(assumption))
                 |exact (altered_header_read_at c pre usz csz isnil tail j v ltac:(assumption) ltac:(assumption) ltac:(assumption) ltac:(assumption) ltac:(assumption) ltac:(assumption))].
Qed.
Print Assumptions C12_altered_header_both_readers_partial.

(* the reader accepts as a record header only what the writer writes (for the same field values) *)
Theorem C12_parse_hdr_accepts_only_written_headers :
  forall l usz csz isnil n,
  parse_hdr l = Ok (usz, csz, isnil, n) ->
  Forall (fun b => b < 256) (firstn (N.to_nat n) l) ->
  let nb := nth 3 l 0 in
  let pre := uv_enc magic ++ [nb] ++ uv_enc usz ++ uv_enc csz in
  firstn (N.to_nat n) l = pre ++ uv_enc (crc32c pre)
  /\ n = lenN (pre ++ uv_enc (crc32c pre))
  /\ isnil = (nb =? 1)
  /\ (nb <= 1 -> firstn (N.to_nat n) l = hdr usz csz isnil /\ n = lenN (hdr usz csz isnil)).
Proof. exact parse_hdr_accepts_only_written_headers. Qed.
Print Assumptions C12_parse_hdr_accepts_only_written_headers.

Theorem C12_parse_hdr_accepted_is_hdr :
  forall l usz csz isnil n,
  Forall (fun b => b < 256) l -> nth 3 l 0 <= 1 ->
  parse_hdr l = Ok (usz, csz, isnil, n) ->
  exists rest, l = hdr usz csz isnil ++ rest /\ n = lenN (hdr usz csz isnil).
Proof. exact parse_hdr_accepted_is_hdr. Qed.
Print Assumptions C12_parse_hdr_accepted_is_hdr.

(* every alteration of a byte of the stored checksum varint is detected, whatever follows the header *)
Theorem C12_checksum_bytes_alteration_detected :
  forall usz csz isnil rest j v,
  usz < 2 ^ 64 -> csz < 2 ^ 64 ->
  (length (hdr_prefix usz csz isnil) <= j < length (hdr usz csz isnil))%nat ->
  v < 256 -> v <> nth j (hdr usz csz isnil) 0 ->
  exists e, parse_hdr (alter (hdr usz csz isnil ++ rest) j v) = Err e.
Proof. exact checksum_bytes_alteration_detected. Qed.
Print Assumptions C12_checksum_bytes_alteration_detected.

(* framing-preserving alterations and checksum-byte alterations together, parser and both readers *)
Theorem C12_header_byte_alteration_detected_ext :
  forall usz csz isnil rest j v,
  usz < 2 ^ 64 -> csz < 2 ^ 64 ->
  (j < length (hdr usz csz isnil))%nat -> v < 256 ->
  v <> nth j (hdr usz csz isnil) 0 ->
  (j = 3%nat \/ same_framing (nth j (hdr usz csz isnil) 0) v
   \/ (length (hdr_prefix usz csz isnil) <= j)%nat) ->
  exists e, parse_hdr (alter (hdr usz csz isnil) j v ++ rest) = Err e.
Proof. exact header_byte_alteration_detected_ext. Qed.
Print Assumptions C12_header_byte_alteration_detected_ext.

Theorem C12_altered_header_both_readers_ext :
  forall (c : codec) pre usz csz isnil tail j v,
  usz < 2 ^ 64 -> csz < 2 ^ 64 ->
  (j < length (hdr usz csz isnil))%nat -> v < 256 ->
  v <> nth j (hdr usz csz isnil) 0 ->
  (j = 3%nat \/ same_framing (nth j (hdr usz csz isnil) 0) v
   \/ (length (hdr_prefix usz csz isnil) <= j)%nat) ->
  (exists e, fst (read_next c (pre ++ alter (hdr usz csz isnil) j v ++ tail) (lenN pre)) = Err e)
  /\ (exists e, read_at c (pre ++ alter (hdr usz csz isnil) j v ++ tail) (lenN pre) = Err e).
Proof.
  intros; split; [exact (altered_header_read_next_ext c pre usz csz isnil tail j v ltac:(assumption) ltac:(assumption) ltac:(assumption) ltac:(assumption) ltac:(assumption) ltac:(assumption))
                 |exact (altered_header_read_at_ext c pre usz csz isnil tail j v ltac:(assumption) ltac:(assumption) ltac:(assumption) ltac:(assumption) ltac:(assumption) ltac:(assumption))].
Qed.
Print Assumptions C12_altered_header_both_readers_ext.

(* the alteration that was accepted before the minimal-encoding check (F-C12a) is rejected *)
Theorem C12_old_witness_now_rejected :
  parse_hdr (alter (hdr 6 0 false) 10 0x85 ++ [0; 1; 2; 3; 4; 5]) = Err HeaderChecksum.
Proof. exact old_witness_now_rejected. Qed.
Print Assumptions C12_old_witness_now_rejected.

Theorem C12_file_header_rejected :
  forall (f : bytes),
  8 <= lenN f ->
  let v := rd32 (sub f 0 4) in
  let ct := rd32 (sub f 4 4) in
  (v < 1 \/ 4 < v \/ 3 < ct) -> parse_file_hdr f = Err Rejected.
Proof. exact file_header_rejected. Qed.
Print Assumptions C12_file_header_rejected.
Print Assumptions C12_header_checksum_same_on_both_sides.
