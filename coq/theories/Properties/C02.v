(* C02 - Acknowledged writes survive a process kill at any instant (synchronous WAL).
   Fs/Crash.v models the directory (tables Partial/Complete/Half-removed, WAL files, compaction
   directory with its flag) and every atomic effect on it of the client thread, the flusher, the
   compactor and recovery; a session is ANY interleaving of those (Crash.sstep), a crash leaves
   the disk of that instant, [recover]/[view] are what an uninterrupted Open makes of it.
   [Reach] closes under crashing sessions (either WAL mode) and crashing recoveries, so the
   theorem covers sessions started on directories with any crash history.
   The order of the effects inside each actor is the order of the calls in the source, re-read on
   every run (C02_order_facts).  Tie to the code: traced sessions (strace), an image at every
   boundary between two mutating system calls and at every return instant, the real Open on each;
   the abstraction of each image must recover, in the model, to what the real Open read back and
   to the same table list, and each change between consecutive images must be one model effect. *)
From GoSST Require Import Base.Bytes Db.Logical Fs.Crash Fs.CrashFacts Fs.OrderFacts.
From GoSSTGen Require Import FactsCode.

Theorem C02_sync_crash_safe :
  forall (d d1 : disk) (base : kvmap) (acts : list saction) (s : sess),
  Reach d -> recover d = Some d1 -> view d = Some base ->
  srun (sess_init false d1) acts = Some s ->
  exists m, view (s_disk s) = Some m /\
            (kv_eq m (kv_after base (s_acked s)) \/ kv_eq m (kv_after base (s_acked s ++ inflight s))).
Proof. exact sync_crash_safe. Qed.

(* re-opening succeeds on every directory a kill can leave *)
Theorem C02_reachable_recovers : forall d : disk, Reach d -> exists d', recover d = Some d'.
Proof. exact reachable_recovers. Qed.

Theorem C02_order_facts :
  put_wal_before_memstore = Some true /\ delete_wal_before_memstore = Some true /\
  flush_uses_tombstones = true /\ flush_table_before_wal_remove = Some true /\ flush_wal_remove_before_install = Some true /\
  table_close_data_before_meta = Some true /\ table_close_meta_last = Some true /\
  compaction_sorts_paths = true /\ compaction_merge_before_flag = Some true /\ compaction_writer_closed_before_flag = Some true /\
  reflect_removes_before_rename = Some true /\
  open_stage_order = true /\ recovery_inputs_removed_before_rename = Some true /\
  recovery_drops_incomplete_tables = true /\ recovery_sorts_table_paths = true /\ replay_sorts_files = true /\
  recovery_flush_before_wal_removal = Some true /\ wal_removal_sorts_names = Some true /\
  recovery_wal_files_oldest_first_before_removeall = Some true.
Proof. exact order_facts. Qed.

Print Assumptions C02_sync_crash_safe.
Print Assumptions C02_reachable_recovers.
Print Assumptions C02_order_facts.
