(* C13 - Asynchronous WAL: a kill loses only a suffix of recent writes, not the database.
   Same machine as C02 with the asynchronous log: an append goes to the process' write buffer, the
   buffered writer hands any number of complete records to the kernel at any time (a record cut by
   a buffer flush is a torn tail, which the replayer treats as end of log: C07), a rotation writes
   the buffer out before the memstore is handed to the flusher.  [s_mark] counts the operations
   applied at the last rotation. *)
From GoSST Require Import Base.Bytes Db.Logical Fs.Crash Fs.CrashFacts.

Theorem C13_async_crash_prefix :
  forall (d d1 : disk) (base : kvmap) (acts : list saction) (s : sess),
  Reach d -> recover d = Some d1 -> view d = Some base ->
  srun (sess_init true d1) acts = Some s ->
  exists m p, view (s_disk s) = Some m /\ is_prefix p (s_acked s ++ inflight s) /\
              (s_mark s <= length p)%nat /\ kv_eq m (kv_after base p).
Proof. exact async_crash_prefix. Qed.

Theorem C13_reachable_recovers : forall d : disk, Reach d -> exists d', recover d = Some d'.
Proof. exact reachable_recovers. Qed.

Print Assumptions C13_async_crash_prefix.
Print Assumptions C13_reachable_recovers.
