(* C13 - Asynchronous WAL: a kill loses only a suffix of recent writes, not the database.
   Same machine as C02 with the asynchronous log: an append goes to the process' write buffer, the
   buffered writer hands any number of complete records to the kernel at any time (a record cut by
   a buffer flush is a torn tail, which the replayer treats as end of log: C07), a rotation writes
   the buffer out before the memstore is handed to the flusher.  [s_mark] counts the operations
   applied at the last rotation. *)
From GoSST Require Import Base.Bytes Db.Logical Fs.Crash Fs.CrashFacts Fs.OrderFacts.
From GoSSTGen Require Import FactsCode.
From GoSST Require Import RecordIO.Format RecordIO.BufWriter RecordIO.BufWriterFacts Wal.Wal Wal.WalFacts Wal.LogProgram Wal.LogBufferFacts.

Theorem C13_async_crash_prefix :
  forall (d d1 : disk) (base : kvmap) (acts : list saction) (s : sess),
  Reach d -> recover d = Some d1 -> view d = Some base ->
  srun (sess_init true d1) acts = Some s ->
  exists m p, view (s_disk s) = Some m /\ is_prefix p (s_acked s ++ inflight s) /\
              (s_mark s <= length p)%nat /\ kv_eq m (kv_after base p).
Proof. exact async_crash_prefix. Qed.

Theorem C13_reachable_recovers : forall d : disk, Reach d -> exists d', recover d = Some d'.
Proof. exact reachable_recovers. Qed.

Print Assumptions C13_async_crash_prefix.
Print Assumptions C13_reachable_recovers.

(* the in-process log buffer (recordio/bufio_vendor.go), byte level: for every buffer size and every program of Write /
   Flush / Seek / Close calls the bytes that reached the file plus the buffered ones are exactly the bytes handed over,
   in order, and the buffer never exceeds its size *)
Theorem C13_buffer_preserves_the_stream :
  forall (cap : nat) (ops : list bop) (buf : bytes), (length buf <= cap)%nat ->
  written_by (concat (fst (bw_run cap buf ops))) ++ snd (bw_run cap buf ops) = buf ++ handed ops
  /\ (length (snd (bw_run cap buf ops)) <= cap)%nat.
Proof. exact bw_run_stream. Qed.
Print Assumptions C13_buffer_preserves_the_stream.

(* hence the log file a kill leaves at ANY boundary between two calls to the underlying writer is a byte prefix of the
   log (whatever the buffer size and the sizes of the records), and it replays - behind the intact older files - to the
   records completely contained in it: a prefix of the appended ones (C07_contained_is_prefix_and_complete) *)
Theorem C13_log_file_is_a_prefix_at_every_boundary :
  forall (c : codec), (forall x, decomp c (comp c x) = Ok x) -> (ctype c <= 3)%N ->
  forall (cap : nat) (ops : list bop) (closed : list (list bytes)) (last : list bytes) (k : nat),
  append_only ops = true ->
  Forall (Forall (rec_ok c)) closed -> Forall (rec_ok c) last ->
  handed ops = wal_file c last ->
  let file := written_by (firstn k (concat (fst (bw_run cap [] ops)))) in
  (exists rest, wal_file c last = file ++ rest)
  /\ replay_files c (map (wal_file c) closed ++ [file]) = (concat closed ++ contained c last (lenN file), None).
Proof. exact log_boundary_replay. Qed.
Print Assumptions C13_log_file_is_a_prefix_at_every_boundary.

(* after Flush or Close nothing is left in the buffer *)
Theorem C13_flush_leaves_nothing_behind :
  forall (cap : nat) (ops : list bop) (last : bop), last = BFlush \/ last = BClose ->
  written_by (concat (fst (bw_run cap [] (ops ++ [last])))) = handed ops.
Proof. exact bw_flushed_all. Qed.
Print Assumptions C13_flush_leaves_nothing_behind.

(* the same for the program the file writer really runs - Open (file header, flush), then per append the record header
   and the stored payload as two writes, a flush after each synchronous one - with ANY buffer size, ANY mix of
   synchronous and asynchronous appends, ANY record sizes, killed at ANY boundary *)
Theorem C13_log_killed_at_any_boundary_replays_a_prefix :
  forall (c : codec), (forall x, decomp c (comp c x) = Ok x) -> (ctype c <= 3)%N ->
  forall (cap : nat) (closed : list (list bytes)) (rs : list (bool * bytes)) (k : nat),
  Forall (Forall (rec_ok c)) closed -> Forall (rec_ok c) (map snd rs) ->
  let file := written_by (firstn k (concat (fst (bw_run cap [] (log_ops c rs))))) in
  replay_files c (map (wal_file c) closed ++ [file])
  = (concat closed ++ contained c (map snd rs) (lenN file), None).
Proof. exact log_program_boundary_replay. Qed.
Print Assumptions C13_log_killed_at_any_boundary_replays_a_prefix.

(* the effect sequences of Fs/Crash.v (log record, then memstore; table complete, then the log file goes; ...) are the
   order of the calls in the source, and a mutation is logged and applied inside one write-locked section - re-read from
   the Go syntax trees on every run *)
Theorem C13_order_facts :
  put_wal_before_memstore = Some true /\ delete_wal_before_memstore = Some true /\
  flush_uses_tombstones = true /\ flush_table_before_wal_remove = Some true /\ flush_wal_remove_before_install = Some true /\
  put_log_append_under_write_lock = Some true /\ delete_log_append_under_write_lock = Some true.
Proof.
  pose proof order_facts as H. pose proof log_under_lock_facts as L.
  repeat split; try apply H; apply L.
Qed.
Print Assumptions C13_order_facts.
