(* C19 - Descriptors, mappings and goroutines stay bounded and are released by Close.
   The ledger (Db/Ledger.v) annotates every step of the logical database with the acquisitions and
   releases the code performs, in code order.  The theorems hold for EVERY program: any number of
   rotation / flush / compaction cycles (any configuration, any table sizes) and close/open rounds.
   The correspondence compares the ledger's counts with /proc/self/fd, /proc/self/maps and the
   goroutine count of the implementation after every step of generated programs; sessions closed
   while the background compactor is at work, and peaks inside a step, are measured and judged by
   the harness oracle only (the ledger runs steps one after the other). *)
From Coq Require Import Permutation.
From GoSST Require Import Base.Bytes Db.Logical Db.Ledger Db.LedgerFacts.
Local Open Scope N_scope.

(* between operations an open database holds exactly one mapping per live table, the WAL descriptor
   and its goroutines, and nothing was ever released twice *)
Theorem C19_ledger_exact :
  forall (compactor : bool) (steps : list dstep),
  Forall (fun p => exists l, snd p = Some l /\ Permutation l (held compactor (fst p)))
         (lrun compactor db_empty (opened compactor) steps).
Proof. exact ledger_exact. Qed.

Theorem C19_resources_bounded :
  forall (compactor : bool) (steps : list dstep),
  Forall (fun p => exists l, snd p = Some l
                    /\ count is_map l = N.of_nat (length (d_tables (fst p)))
                    /\ count is_fd l = 1
                    /\ count is_gor l = (if compactor then 2 else 1))
         (lrun compactor db_empty (opened compactor) steps).
Proof. exact resources_bounded. Qed.

(* inside a step: never more than three handles per live table plus a constant *)
Theorem C19_peak_bounded :
  forall (compactor : bool) (s : db) (l : ledger) (st : dstep),
  Permutation l (held compactor s) ->
  Forall (fun x => exists l', x = Some l' /\
                   (length l' <= 3 * Nat.max (length (d_tables s)) (length (d_tables (fst (db_step s st)))) + 8)%nat)
         (trace_evs (Some l) (step_events compactor s st)).
Proof. exact peak_bounded. Qed.

(* Open, any program, Close: nothing is held any more *)
Theorem C19_close_releases_all :
  forall (compactor : bool) (steps : list dstep), session_end compactor steps = Some [].
Proof. exact close_releases_all. Qed.

(* a table reader: closing it releases its mapping and every scanner created from it, complete or
   abandoned; RecordIO handles are released by their own Close *)
Theorem C19_reader_close_releases_owned :
  forall ops : list rop, filter r_owned_by_reader (snd (r_close_reader (fold_left r_step ops r_open))) = [].
Proof. exact reader_close_releases_owned. Qed.

Theorem C19_reader_close_releases_all :
  forall ops : list rop, snd (r_close_reader (r_close_handles (fold_left r_step ops r_open))) = [].
Proof. exact reader_close_releases_all. Qed.

Print Assumptions C19_ledger_exact.
Print Assumptions C19_resources_bounded.
Print Assumptions C19_peak_bounded.
Print Assumptions C19_close_releases_all.
Print Assumptions C19_reader_close_releases_owned.
Print Assumptions C19_reader_close_releases_all.
