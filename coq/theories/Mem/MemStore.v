(* Model of memstore/memstore.go over the skip-list model.
   Values are [option bytes]: None is Go's nil slice (tombstone), Some [] the empty slice.
   Keys: a nil key is rejected by Add/Upsert only (KeyNil); everywhere else nil behaves as the
   empty key (bytes.Compare), so stored keys are plain bytes.
   The size estimate is a uint64: subtraction/addition are written with the wrap (mod 2^64);
   MemStoreFacts proves the wrap never happens. *)
From GoSST Require Import Base.Bytes Struct.SkipList.
Local Open Scope N_scope.

Definition u64 (x : Z) : N := Z.to_N (x mod 18446744073709551616)%Z.
Definition u64_sub (a b : N) : N := u64 (Z.of_N a - Z.of_N b).
Definition u64_add (a b : N) : N := u64 (Z.of_N a + Z.of_N b).

Definition blen (b : bytes) : N := N.of_nat (length b).
Definition olen (v : option bytes) : N := match v with Some b => blen b | None => 0 end.

Inductive mserr := KeyAlreadyExists | KeyNotFound | KeyTombstoned | KeyNil | ValueNil.

Record memstore := mkMS { ms_list : @sl bytes (option bytes); ms_est : N }.

Definition ms_empty : memstore := mkMS [] 0.

(* *element.value = v : in-place update of the node whose key compares equal *)
Fixpoint set_val (key : bytes) (v : option bytes) (m : @sl bytes (option bytes)) : @sl bytes (option bytes) :=
  match m with
  | [] => []
  | t :: r => match bcmp key (tkey t) with
              | Eq => mkTower (tkey t) v (th t) :: r
              | _ => t :: set_val key v r
              end
  end.

Definition ms_lookup (key : bytes) (s : memstore) : option (option bytes) := get bcmp key (ms_list s).

(* upsertInternal *)
Definition ms_upsert_internal (key value : option bytes) (error_if_exist : bool) (h : nat) (s : memstore)
  : memstore * option mserr :=
  match key, value with
  | None, _ => (s, Some KeyNil)
  | Some _, None => (s, Some ValueNil)
  | Some k, Some v =>
      match ms_lookup k s with
      | Some old =>
          match old, error_if_exist with
          | Some _, true => (s, Some KeyAlreadyExists)
          | _, _ =>
              (mkMS (set_val k (Some v) (ms_list s)) (u64_add (u64_sub (ms_est s) (olen old)) (blen v)), None)
          end
      | None =>
          match insert bcmp k (Some v) h (ms_list s) with
          | Some l' => (mkMS l' (u64_add (ms_est s) (u64_add (blen k) (blen v))), None)
          | None => (s, None)   (* unreachable: lookup said absent *)
          end
      end
  end.

Definition key_of (k : option bytes) : bytes := match k with Some b => b | None => [] end.

Definition ms_delete_internal (key : option bytes) (error_if_not_found : bool) (s : memstore)
  : memstore * option mserr :=
  let k := key_of key in
  match ms_lookup k s with
  | None => (s, if error_if_not_found then Some KeyNotFound else None)
  | Some old => (mkMS (set_val k None (ms_list s)) (u64_sub (ms_est s) (olen old)), None)
  end.

Definition ms_tombstone (key : option bytes) (h : nat) (s : memstore) : memstore * option mserr :=
  let k := key_of key in
  match ms_lookup k s with
  | Some old => (mkMS (set_val k None (ms_list s)) (u64_sub (ms_est s) (olen old)), None)
  | None =>
      match insert bcmp k None h (ms_list s) with
      | Some l' => (mkMS l' (u64_add (ms_est s) (blen k)), None)
      | None => (s, None)
      end
  end.

Definition ms_get (key : option bytes) (s : memstore) : (bytes + mserr) :=
  match ms_lookup (key_of key) s with
  | None => inr KeyNotFound
  | Some None => inr KeyTombstoned
  | Some (Some v) => inl v
  end.

Definition ms_contains (key : option bytes) (s : memstore) : bool :=
  match ms_lookup (key_of key) s with Some (Some _) => true | _ => false end.

Definition ms_is_tombstoned (key : option bytes) (s : memstore) : bool :=
  match ms_lookup (key_of key) s with Some None => true | _ => false end.

Definition ms_size (s : memstore) : nat := size (ms_list s).

(* SStableIterator / skip list iterator: ascending keys, nil for tombstones *)
Definition ms_iter (s : memstore) : list (bytes * option bytes) := scan_all bcmp (ms_list s).

(* what Flush / FlushWithTombstones hand to the table writer, in order *)
Definition ms_flush_pairs (include_tombstones : bool) (s : memstore) : list (bytes * option bytes) :=
  if include_tombstones then ms_iter s
  else filter (fun kv => match snd kv with Some _ => true | None => false end) (ms_iter s).

(* call programs *)
Inductive msop :=
| OAdd (k v : option bytes) | OUpsert (k v : option bytes)
| ODelete (k : option bytes) | ODeleteIfExists (k : option bytes) | OTombstone (k : option bytes)
| OGet (k : option bytes) | OContains (k : option bytes) | OIsTombstoned (k : option bytes) | OSize.

Inductive msout :=
| RErr (e : option mserr)          (* result of a mutating call: nil or an error *)
| RGet (r : bytes + mserr)
| RBool (b : bool)
| RSize (n : nat).

Definition ms_step (h : nat) (s : memstore) (o : msop) : memstore * msout :=
  match o with
  | OAdd k v => let '(s', e) := ms_upsert_internal k v true h s in (s', RErr e)
  | OUpsert k v => let '(s', e) := ms_upsert_internal k v false h s in (s', RErr e)
  | ODelete k => let '(s', e) := ms_delete_internal k true s in (s', RErr e)
  | ODeleteIfExists k => let '(s', e) := ms_delete_internal k false s in (s', RErr e)
  | OTombstone k => let '(s', e) := ms_tombstone k h s in (s', RErr e)
  | OGet k => (s, RGet (ms_get k s))
  | OContains k => (s, RBool (ms_contains k s))
  | OIsTombstoned k => (s, RBool (ms_is_tombstoned k s))
  | OSize => (s, RSize (ms_size s))
  end.

(* run a program; heights for the insertions come from [hs] (1 when exhausted) *)
Fixpoint ms_run (hs : list nat) (s : memstore) (ops : list msop) : memstore * list (msout * N) :=
  match ops with
  | [] => (s, [])
  | o :: r =>
      let h := hd 1%nat hs in
      let '(s', out) := ms_step h s o in
      let '(s'', outs) := ms_run (tl hs) s' r in
      (s'', (out, ms_est s') :: outs)
  end.
