(* Theorems about the memstore model (Mem/MemStore.v): every call program behaves as the
   reference map with tombstones; the raw size estimate is exact (hence never wraps);
   both flush variants hand the writer exactly the reference content. *)
From GoSST Require Import Base.Bytes Base.Order Struct.SkipList Struct.SkipListFacts Mem.MemStore.
From Coq Require Import Lia Sorting.Sorted Sorting.Permutation.
Local Open Scope N_scope.

(* ---- the reference: a sorted association list key -> Some value | None (tombstone) *)
Definition rmap := list (bytes * option bytes).

Fixpoint r_set (k : bytes) (v : option bytes) (l : rmap) : rmap :=
  match l with
  | [] => [(k, v)]
  | (k', v') :: r =>
      match bcmp k k' with
      | Lt => (k, v) :: l
      | Eq => (k, v) :: r
      | Gt => (k', v') :: r_set k v r
      end
  end.

Definition r_get (k : bytes) (l : rmap) : option (option bytes) := assoc bcmp k l.

Definition r_step (l : rmap) (o : msop) : rmap * msout :=
  match o with
  | OAdd k v =>
      match k, v with
      | None, _ => (l, RErr (Some KeyNil))
      | Some _, None => (l, RErr (Some ValueNil))
      | Some k', Some v' =>
          match r_get k' l with
          | Some (Some _) => (l, RErr (Some KeyAlreadyExists))
          | _ => (r_set k' (Some v') l, RErr None)
          end
      end
  | OUpsert k v =>
      match k, v with
      | None, _ => (l, RErr (Some KeyNil))
      | Some _, None => (l, RErr (Some ValueNil))
      | Some k', Some v' => (r_set k' (Some v') l, RErr None)
      end
  | ODelete k =>
      match r_get (key_of k) l with
      | None => (l, RErr (Some KeyNotFound))
      | Some _ => (r_set (key_of k) None l, RErr None)
      end
  | ODeleteIfExists k =>
      match r_get (key_of k) l with
      | None => (l, RErr None)
      | Some _ => (r_set (key_of k) None l, RErr None)
      end
  | OTombstone k => (r_set (key_of k) None l, RErr None)
  | OGet k =>
      (l, RGet match r_get (key_of k) l with
               | None => inr KeyNotFound
               | Some None => inr KeyTombstoned
               | Some (Some v) => inl v
               end)
  | OContains k => (l, RBool match r_get (key_of k) l with Some (Some _) => true | _ => false end)
  | OIsTombstoned k => (l, RBool match r_get (key_of k) l with Some None => true | _ => false end)
  | OSize => (l, RSize (length l))
  end.

Definition r_bytes (l : rmap) : N :=
  fold_right (fun kv acc => blen (fst kv) + olen (snd kv) + acc) 0 l.

(* reference run: outputs paired with the exact byte count of the state after each call *)
Fixpoint r_run (l : rmap) (ops : list msop) : rmap * list (msout * N) :=
  match ops with
  | [] => (l, [])
  | o :: r =>
      let '(l', out) := r_step l o in
      let '(l'', outs) := r_run l' r in
      (l'', (out, r_bytes l') :: outs)
  end.

(* all intermediate reference states hold fewer than 2^64 bytes (16 EiB) *)
Fixpoint bounded (l : rmap) (ops : list msop) : Prop :=
  match ops with
  | [] => True
  | o :: r => r_bytes (fst (r_step l o)) < 18446744073709551616 /\ bounded (fst (r_step l o)) r
  end.

Definition live (kv : bytes * option bytes) : bool := match snd kv with Some _ => true | None => false end.

(* ---------------------------------------------------------------- helper lemmas *)

Lemma u64_sub_exact a b : b <= a -> a < 18446744073709551616 -> u64_sub a b = a - b.
Proof. intros Hb Ha. unfold u64_sub, u64. rewrite Z.mod_small by lia. lia. Qed.

Lemma u64_add_exact a b : a + b < 18446744073709551616 -> u64_add a b = a + b.
Proof. intros Hab. unfold u64_add, u64. rewrite Z.mod_small by lia. lia. Qed.

Lemma r_bytes_cons k v l : r_bytes ((k, v) :: l) = blen k + olen v + r_bytes l.
Proof. reflexivity. Qed.

Lemma kvs_cons (t : @tower bytes (option bytes)) r : kvs (t :: r) = (tkey t, tval t) :: kvs r.
Proof. reflexivity. Qed.

Definition rsorted (l : rmap) : Prop :=
  StronglySorted (fun a b => bcmp (fst a) (fst b) = Lt) l.

Lemma assoc_all_lt k (l : rmap) :
  Forall (fun b => bcmp k (fst b) = Lt) l -> assoc bcmp k l = None.
Proof.
  induction l as [|[k' v'] r IH]; intros HF; simpl; [reflexivity|].
  inversion HF as [|x xs Hx Hxs]; subst. simpl in Hx. rewrite Hx. apply IH; exact Hxs.
Qed.

Lemma rsorted_head_absent k k' v' (r : rmap) :
  rsorted ((k', v') :: r) -> bcmp k k' = Lt -> assoc bcmp k r = None.
Proof.
  intros Hs Hlt. inversion Hs as [|x xs Hss HF]; subst.
  apply assoc_all_lt. eapply Forall_impl; [|exact HF].
  intros [k2 v2] H2; simpl in *. eapply bcmp_trans; eassumption.
Qed.

Lemma rsorted_tail a (r : rmap) : rsorted (a :: r) -> rsorted r.
Proof. intros Hs. inversion Hs; assumption. Qed.

Lemma r_bytes_present k v old (l : rmap) :
  rsorted l -> assoc bcmp k l = Some old ->
  exists rest, r_bytes l = rest + olen old /\ r_bytes (r_set k v l) = rest + olen v.
Proof.
  induction l as [|[k' v'] r IH]; intros Hs Ha; simpl in Ha; [discriminate|].
  simpl r_set. destruct (bcmp k k') eqn:E.
  - apply bcmp_eq in E. subst k'. injection Ha as Ha. subst v'.
    exists (blen k + r_bytes r). rewrite !r_bytes_cons. lia.
  - rewrite (rsorted_head_absent k k' v' r Hs E) in Ha. discriminate.
  - destruct (IH (rsorted_tail _ _ Hs) Ha) as [rest [H1 H2]].
    exists (blen k' + olen v' + rest). rewrite !r_bytes_cons. lia.
Qed.

Lemma r_bytes_absent k v (l : rmap) :
  assoc bcmp k l = None -> r_bytes (r_set k v l) = r_bytes l + (blen k + olen v).
Proof.
  induction l as [|[k' v'] r IH]; intros Ha; simpl in Ha; simpl r_set.
  - rewrite r_bytes_cons. unfold r_bytes. simpl. lia.
  - destruct (bcmp k k') eqn:E; [discriminate| |].
    + rewrite !r_bytes_cons. lia.
    + rewrite !r_bytes_cons. rewrite (IH Ha). lia.
Qed.

(* local copies of two comparator-independent facts, so that this file does not depend on
   which section hypotheses their SkipListFacts versions end up using *)
Lemma kvs_rsorted (m : @sl bytes (option bytes)) : sorted bcmp m -> rsorted (kvs m).
Proof.
  induction m as [|t r IH]; intros Hs; [constructor|].
  inversion Hs as [|x xs Hss HF]; subst. rewrite kvs_cons. constructor; [apply IH; exact Hss|].
  unfold kvs. apply Forall_map. simpl. exact HF.
Qed.

Lemma drain_all (m : @sl bytes (option bytes)) n :
  (length m < n)%nat -> drain bcmp n (mkIter m None false) = kvs m.
Proof.
  revert n. induction m as [|t r IH]; intros n Hn.
  - destruct n as [|n]; reflexivity.
  - destruct n as [|n]; [simpl in Hn; lia|]. simpl. f_equal. apply IH. simpl in Hn. lia.
Qed.

Lemma ms_iter_kvs s : ms_iter s = kvs (ms_list s).
Proof. unfold ms_iter, scan_all, iterator. apply drain_all. lia. Qed.

(* ---- set_val *)
Lemma sorted_tail t (r : @sl bytes (option bytes)) : sorted bcmp (t :: r) -> sorted bcmp r.
Proof. intros Hs. inversion Hs; assumption. Qed.

Lemma set_val_Forall_key (P : bytes -> Prop) k v (m : @sl bytes (option bytes)) :
  Forall (fun t => P (tkey t)) m -> Forall (fun t => P (tkey t)) (set_val k v m).
Proof.
  induction m as [|t r IH]; intros HF; simpl; [constructor|].
  inversion HF as [|x xs Hx Hxs]; subst.
  destruct (bcmp k (tkey t)); constructor; simpl; auto.
Qed.

Lemma set_val_sorted k v m : sorted bcmp m -> sorted bcmp (set_val k v m).
Proof.
  induction m as [|t r IH]; intros Hs; simpl; [constructor|].
  inversion Hs as [|x xs Hss HF]; subst.
  destruct (bcmp k (tkey t)).
  - constructor; [exact Hss|]. simpl. exact HF.
  - constructor; [apply IH; exact Hss|].
    apply (set_val_Forall_key (fun key => bcmp (tkey t) key = Lt)). exact HF.
  - constructor; [apply IH; exact Hss|].
    apply (set_val_Forall_key (fun key => bcmp (tkey t) key = Lt)). exact HF.
Qed.

Lemma set_val_heights k v (m : @sl bytes (option bytes)) : heights_ok m -> heights_ok (set_val k v m).
Proof.
  unfold heights_ok. induction m as [|t r IH]; intros HF; simpl; [constructor|].
  inversion HF as [|x xs Hx Hxs]; subst.
  destruct (bcmp k (tkey t)); constructor; simpl; auto.
Qed.

Lemma set_val_kvs k v old m :
  sorted bcmp m -> assoc bcmp k (kvs m) = Some old ->
  kvs (set_val k v m) = r_set k v (kvs m).
Proof.
  induction m as [|t r IH]; intros Hs Ha; [discriminate|].
  rewrite kvs_cons in Ha |- *. simpl in Ha. simpl set_val. simpl r_set.
  destruct (bcmp k (tkey t)) eqn:E.
  - apply bcmp_eq in E. rewrite kvs_cons. simpl. rewrite E. reflexivity.
  - pose proof (kvs_rsorted (t :: r) Hs) as Hk. rewrite kvs_cons in Hk.
    rewrite (rsorted_head_absent k _ _ _ Hk E) in Ha. discriminate.
  - rewrite kvs_cons. f_equal. apply IH; [exact (sorted_tail _ _ Hs)|exact Ha].
Qed.

(* the three SkipListFacts lemmas this file relies on, instantiated at bcmp *)
Lemma b_find_ge_spec k (m : @sl bytes (option bytes)) :
  sorted bcmp m -> heights_ok m -> find_ge bcmp k m = drop_lt bcmp k m.
Proof. intros Hs Hh. apply find_ge_spec; auto using bcmp_laws. Qed.

Lemma b_get_spec k (m : @sl bytes (option bytes)) :
  sorted bcmp m -> heights_ok m -> get bcmp k m = assoc bcmp k (kvs m).
Proof. intros Hs Hh. apply get_spec; auto using bcmp_laws. Qed.

Lemma b_insert_spec k v h (m : @sl bytes (option bytes)) :
  sorted bcmp m -> heights_ok m -> (1 <= h)%nat -> assoc bcmp k (kvs m) = None ->
  exists m', insert bcmp k v h m = Some m' /\ sorted bcmp m' /\ heights_ok m'
             /\ Permutation (kvs m') ((k, v) :: kvs m).
Proof. intros Hs Hh H1 Ha. apply insert_spec; auto using bcmp_laws. Qed.

(* ---- insert *)
Lemma drop_lt_length k (m : @sl bytes (option bytes)) : (length (drop_lt bcmp k m) <= length m)%nat.
Proof.
  induction m as [|t r IH]; simpl; [lia|].
  destruct (bcmp (tkey t) k); simpl; lia.
Qed.

Lemma splice_kvs k v h (m : @sl bytes (option bytes)) :
  assoc bcmp k (kvs m) = None ->
  kvs (firstn (length m - length (drop_lt bcmp k m)) m ++ mkTower k v h :: drop_lt bcmp k m)
  = r_set k v (kvs m).
Proof.
  induction m as [|t r IH]; intros Ha; [reflexivity|].
  rewrite kvs_cons in Ha |- *. simpl in Ha. simpl r_set. simpl drop_lt.
  rewrite (bcmp_antisym k (tkey t)).
  destruct (bcmp k (tkey t)) eqn:E; simpl CompOpp; cbv iota.
  - discriminate.
  - rewrite Nat.sub_diag. reflexivity.
  - pose proof (drop_lt_length k r) as Hl.
    change (length (t :: r)) with (S (length r)). rewrite (Nat.sub_succ_l _ _ Hl).
    simpl firstn. rewrite <- app_comm_cons, kvs_cons. f_equal. apply IH; exact Ha.
Qed.

Lemma insert_absent k v h m :
  sorted bcmp m -> heights_ok m -> (1 <= h)%nat -> assoc bcmp k (kvs m) = None ->
  exists m', insert bcmp k v h m = Some m' /\ sorted bcmp m' /\ heights_ok m'
             /\ kvs m' = r_set k v (kvs m).
Proof.
  intros Hs Hh H1 Ha.
  destruct (b_insert_spec k v h m Hs Hh H1 Ha) as [m' [Hi [Hs' [Hh' _]]]].
  exists m'. repeat split; try assumption.
  unfold insert in Hi. rewrite (b_find_ge_spec k m Hs Hh) in Hi.
  match type of Hi with (if ?c then _ else _) = _ => destruct c end; [discriminate|].
  injection Hi as Hi. subst m'. apply splice_kvs; exact Ha.
Qed.

(* ---- the invariant *)
Definition Inv (s : memstore) (l : rmap) : Prop :=
  sorted bcmp (ms_list s) /\ heights_ok (ms_list s) /\ kvs (ms_list s) = l
  /\ ms_est s = r_bytes l /\ r_bytes l < 18446744073709551616.

Lemma Inv_empty : Inv ms_empty [].
Proof.
  unfold Inv, ms_empty; simpl. repeat split; try constructor.
Qed.

Lemma Inv_rsorted s l : Inv s l -> rsorted l.
Proof. intros [Hs [_ [Hk _]]]. subst l. apply kvs_rsorted; exact Hs. Qed.

Lemma lookup_ref k s l : Inv s l -> ms_lookup k s = r_get k l.
Proof.
  intros [Hs [Hh [Hk _]]]. unfold ms_lookup, r_get. subst l.
  apply b_get_spec; assumption.
Qed.

Lemma present_inv s l k v old :
  Inv s l -> r_get k l = Some old -> r_bytes (r_set k v l) < 18446744073709551616 ->
  Inv (mkMS (set_val k v (ms_list s)) (u64_add (u64_sub (ms_est s) (olen old)) (olen v)))
      (r_set k v l).
Proof.
  intros HI Hg Hb. pose proof (Inv_rsorted _ _ HI) as Hrs.
  destruct HI as [Hs [Hh [Hk [He Hlt]]]]. unfold r_get in Hg.
  destruct (r_bytes_present k v old l Hrs Hg) as [rest [H1 H2]].
  unfold Inv; simpl. repeat split.
  - apply set_val_sorted; exact Hs.
  - apply set_val_heights; exact Hh.
  - subst l. eapply set_val_kvs; eassumption.
  - rewrite He, u64_sub_exact by lia. rewrite u64_add_exact by lia. lia.
  - exact Hb.
Qed.

Lemma u64_add_0 a b : u64_add (u64_sub a b) 0 = u64_sub a b.
Proof.
  unfold u64_add, u64_sub, u64.
  pose proof (Z.mod_pos_bound (Z.of_N a - Z.of_N b) 18446744073709551616 ltac:(lia)) as Hm.
  rewrite Z2N.id by lia. rewrite Z.add_0_r. rewrite Z.mod_mod by lia. reflexivity.
Qed.

Lemma absent_inv s l k v h :
  Inv s l -> (1 <= h)%nat -> r_get k l = None ->
  r_bytes (r_set k v l) < 18446744073709551616 ->
  exists m', insert bcmp k v h (ms_list s) = Some m'
             /\ ms_est s + (blen k + olen v) < 18446744073709551616
             /\ forall est', est' = ms_est s + (blen k + olen v) -> Inv (mkMS m' est') (r_set k v l).
Proof.
  intros [Hs [Hh [Hk [He Hlt]]]] H1 Hg Hb. unfold r_get in Hg. subst l.
  destruct (insert_absent k v h (ms_list s) Hs Hh H1 Hg) as [m' [Hi [Hs' [Hh' Hk']]]].
  exists m'. split; [exact Hi|].
  split; [rewrite He, <- (r_bytes_absent k v _ Hg); exact Hb|].
  intros est' Hest. unfold Inv; simpl.
  repeat split; try assumption.
  rewrite Hest, He. symmetry. apply r_bytes_absent; exact Hg.
Qed.

(* ---- one call *)
Ltac use_present HI G Hb :=
  split; [reflexivity|]; simpl fst;
  first [ exact (present_inv _ _ _ _ _ HI G Hb)
        | rewrite <- u64_add_0; exact (present_inv _ _ _ None _ HI G Hb) ].

Lemma step_refines h s l o :
  Inv s l -> (1 <= h)%nat -> r_bytes (fst (r_step l o)) < 18446744073709551616 ->
  snd (ms_step h s o) = snd (r_step l o) /\ Inv (fst (ms_step h s o)) (fst (r_step l o)).
Proof.
  intros HI H1 Hb.
  destruct o as [k v|k v|k|k|k|k|k|k|]; simpl ms_step.
  - (* Add *)
    unfold ms_upsert_internal.
    destruct k as [k|]; [|split; [reflexivity|exact HI]].
    destruct v as [v|]; [|split; [reflexivity|exact HI]].
    rewrite (lookup_ref k s l HI). simpl r_step in *.
    destruct (r_get k l) as [[old|]|] eqn:G; simpl fst in *; simpl snd in *.
    + split; [reflexivity|exact HI].
    + use_present HI G Hb.
    + destruct (absent_inv s l k (Some v) h HI H1 G Hb) as [m' [Hi [Hlt HInv]]].
      rewrite Hi. split; [reflexivity|]. simpl fst. apply HInv. simpl olen in *.
      rewrite (u64_add_exact (blen k) (blen v)) by lia. apply u64_add_exact. lia.
  - (* Upsert *)
    unfold ms_upsert_internal.
    destruct k as [k|]; [|split; [reflexivity|exact HI]].
    destruct v as [v|]; [|split; [reflexivity|exact HI]].
    rewrite (lookup_ref k s l HI). simpl r_step in *. simpl fst in *. simpl snd in *.
    destruct (r_get k l) as [old|] eqn:G.
    + destruct old as [old|]; use_present HI G Hb.
    + destruct (absent_inv s l k (Some v) h HI H1 G Hb) as [m' [Hi [Hlt HInv]]].
      rewrite Hi. split; [reflexivity|]. simpl fst. apply HInv. simpl olen in *.
      rewrite (u64_add_exact (blen k) (blen v)) by lia. apply u64_add_exact. lia.
  - (* Delete *)
    unfold ms_delete_internal. rewrite (lookup_ref (key_of k) s l HI). simpl r_step in *.
    destruct (r_get (key_of k) l) as [old|] eqn:G; simpl fst in *; simpl snd in *.
    + use_present HI G Hb.
    + split; [reflexivity|exact HI].
  - (* DeleteIfExists *)
    unfold ms_delete_internal. rewrite (lookup_ref (key_of k) s l HI). simpl r_step in *.
    destruct (r_get (key_of k) l) as [old|] eqn:G; simpl fst in *; simpl snd in *.
    + use_present HI G Hb.
    + split; [reflexivity|exact HI].
  - (* Tombstone *)
    unfold ms_tombstone. rewrite (lookup_ref (key_of k) s l HI). simpl r_step in *.
    simpl fst in *. simpl snd in *.
    destruct (r_get (key_of k) l) as [old|] eqn:G.
    + use_present HI G Hb.
    + destruct (absent_inv s l (key_of k) None h HI H1 G Hb) as [m' [Hi [Hlt HInv]]].
      rewrite Hi. split; [reflexivity|]. simpl fst. apply HInv. simpl olen in *.
      rewrite u64_add_exact by lia. lia.
  - (* Get *)
    simpl. unfold ms_get. rewrite (lookup_ref (key_of k) s l HI). split; [reflexivity|exact HI].
  - (* Contains *)
    simpl. unfold ms_contains. rewrite (lookup_ref (key_of k) s l HI). split; [reflexivity|exact HI].
  - (* IsTombstoned *)
    simpl. unfold ms_is_tombstoned. rewrite (lookup_ref (key_of k) s l HI).
    split; [reflexivity|exact HI].
  - (* Size *)
    simpl. split; [|exact HI]. unfold ms_size, size.
    destruct HI as [_ [_ [Hk _]]]. rewrite <- Hk. unfold kvs. rewrite map_length. reflexivity.
Qed.

(* ---- whole programs *)
Lemma run_refines ops : forall hs s l,
  Forall (fun h => 1 <= h)%nat hs -> Inv s l -> bounded l ops ->
  snd (ms_run hs s ops) = snd (r_run l ops) /\ Inv (fst (ms_run hs s ops)) (fst (r_run l ops)).
Proof.
  induction ops as [|o r IH]; intros hs s l Hhs HI Hb; simpl.
  - split; [reflexivity|exact HI].
  - destruct Hb as [Hb1 Hb2].
    assert (Hh : (1 <= hd 1 hs)%nat) by (destruct Hhs as [|x xs Hx Hxs]; simpl; [lia|exact Hx]).
    assert (Ht : Forall (fun h => 1 <= h)%nat (tl hs)) by (destruct Hhs; simpl; [constructor|assumption]).
    pose proof (step_refines (hd 1%nat hs) s l o HI Hh Hb1) as [Hout HI'].
    destruct (ms_step (hd 1%nat hs) s o) as [s' out].
    destruct (r_step l o) as [l' rout]. simpl in Hout, HI', Hb2.
    pose proof (IH (tl hs) s' l' Ht HI' Hb2) as [Houts HI''].
    destruct (ms_run (tl hs) s' r) as [s'' outs].
    destruct (r_run l' r) as [l'' routs]. simpl in *.
    split; [|exact HI''].
    destruct HI' as [_ [_ [_ [He _]]]]. rewrite Hout, He, Houts. reflexivity.
Qed.

(* C14 main theorem: results, errors, size estimate after every call, final content, iteration order, Size *)
Theorem memstore_refines_ref (hs : list nat) (ops : list msop) :
  Forall (fun h => 1 <= h)%nat hs ->
  bounded [] ops ->
  let '(s, outs) := ms_run hs ms_empty ops in
  let '(l, routs) := r_run [] ops in
  outs = routs
  /\ kvs (ms_list s) = l
  /\ ms_iter s = l
  /\ ms_size s = length l
  /\ StronglySorted (fun a b => bcmp (fst a) (fst b) = Lt) l
  /\ ms_est s = r_bytes l.
Proof.
  intros Hhs Hb.
  pose proof (run_refines ops hs ms_empty [] Hhs Inv_empty Hb) as [Houts HI].
  destruct (ms_run hs ms_empty ops) as [s outs].
  destruct (r_run [] ops) as [l routs]. simpl in Houts, HI.
  pose proof (Inv_rsorted _ _ HI) as Hrs.
  destruct HI as [Hs [Hh [Hk [He Hlt]]]].
  split; [exact Houts|]. split; [exact Hk|].
  split; [rewrite ms_iter_kvs; exact Hk|].
  split; [unfold ms_size, size; rewrite <- Hk; unfold kvs; rewrite map_length; reflexivity|].
  split; [exact Hrs|exact He].
Qed.

(* the estimate is exact, so the uint64 subtraction never wraps below zero: at every step the
   model's wrapped arithmetic equals unbounded arithmetic *)
Corollary size_estimate_exact (hs : list nat) (ops : list msop) :
  Forall (fun h => 1 <= h)%nat hs ->
  bounded [] ops ->
  map snd (snd (ms_run hs ms_empty ops)) = map snd (snd (r_run [] ops)).
Proof.
  intros Hhs Hb.
  pose proof (run_refines ops hs ms_empty [] Hhs Inv_empty Hb) as [Houts _].
  rewrite Houts. reflexivity.
Qed.

Theorem flush_equals_ref (hs : list nat) (ops : list msop) :
  Forall (fun h => 1 <= h)%nat hs ->
  bounded [] ops ->
  let s := fst (ms_run hs ms_empty ops) in
  let l := fst (r_run [] ops) in
  ms_flush_pairs true s = l /\ ms_flush_pairs false s = filter live l.
Proof.
  intros Hhs Hb.
  pose proof (run_refines ops hs ms_empty [] Hhs Inv_empty Hb) as [_ HI].
  destruct HI as [_ [_ [Hk _]]].
  unfold ms_flush_pairs. rewrite ms_iter_kvs, Hk. split; reflexivity.
Qed.

(* non-vacuity: a concrete program incl. re-adding a tombstoned key and deleting an absent one *)
Example memstore_example :
  let ops := [OAdd (Some [1]) (Some [7; 7]); ODelete (Some [1]); OAdd (Some [1]) (Some []);
              ODelete (Some [9]); OTombstone (Some [5]); OGet (Some [5]); OSize] in
  Forall (fun h => 1 <= h)%nat [3; 1; 2]%nat /\ bounded [] ops
  /\ snd (ms_run [3; 1; 2]%nat ms_empty ops) = snd (r_run [] ops)
  /\ fst (r_run [] ops) = [([1], Some []); ([5], None)].
Proof.
  split; [repeat constructor|].
  split; [vm_compute; repeat split|].
  split; vm_compute; reflexivity.
Qed.

Print Assumptions memstore_refines_ref.
Print Assumptions size_estimate_exact.
Print Assumptions flush_equals_ref.
Print Assumptions memstore_example.
