(* The four key-index loaders (slice, skip list, map, disk) over the index file. *)
From GoSST Require Import Base.Bytes Base.ProtoWire Struct.SkipList RecordIO.Format RecordIO.SeqReader RecordIO.MmapReader.
Local Open Scope N_scope.

Definition ientry := (bytes * N * N)%type.   (* key, value offset, checksum *)
Definition ikey (e : ientry) : bytes := fst (fst e).
Definition ival (e : ientry) : N * N := (snd (fst e), snd e).

(* sequential load of the index file (slice / skip-list / map loaders) *)
Fixpoint load_entries (fuel : nat) (c : codec) (f : bytes) (pos : N) : res (list ientry) :=
  match fuel with
  | O => Err OutOfFuel
  | S k =>
      match read_next c f pos with
      | (Err EOF, _) => Ok []
      | (Err e, _) => Err e
      | (Ok r, pos') =>
          match pb_dec_index_entry (match r with Some p => p | None => [] end) with
          | Err e => Err e
          | Ok e =>
              match load_entries k c f pos' with Ok es => Ok (e :: es) | Err e' => Err e' end
          end
      end
  end.

Definition load_index (c : codec) (f : bytes) : res (list ientry) :=
  match r_open f with
  | Err e => Err e
  | Ok pos => load_entries (S (length f)) c f pos
  end.

(* ---- slice index: slices.BinarySearchFunc as its loop *)
Fixpoint bs_loop (fuel : nat) (es : list ientry) (key : bytes) (i j : nat) : nat :=
  match fuel with
  | O => i
  | S f =>
      if Nat.ltb i j then
        let h := Nat.div2 (i + j) in
        match bcmp (ikey (nth h es ([], 0, 0))) key with
        | Lt => bs_loop f es key (S h) j
        | _ => bs_loop f es key i h
        end
      else i
  end.
Definition bsearch (es : list ientry) (key : bytes) : nat * bool :=
  let i := bs_loop (S (length es)) es key 0 (length es) in
  (i, Nat.ltb i (length es) && beqb (ikey (nth i es ([], 0, 0))) key).

Definition slice_get (es : list ientry) (key : bytes) : option (N * N) :=
  let '(i, found) := bsearch es key in if found then Some (ival (nth i es ([], 0, 0))) else None.
Definition slice_iter (es : list ientry) (from to_excl : nat) : list ientry :=
  firstn (to_excl - from) (skipn from es).
Definition slice_from (es : list ientry) (key : bytes) : list ientry :=
  slice_iter es (fst (bsearch es key)) (length es).
Definition slice_between (es : list ientry) (lo hi : bytes) : option (list ientry) :=
  match bcmp lo hi with
  | Gt => None
  | _ =>
      let s := fst (bsearch es lo) in
      let e := fst (bsearch es hi) in
      let e' := if Nat.ltb e (length es) && bleb (ikey (nth e es ([], 0, 0))) hi then S e else e in
      Some (slice_iter es s e')
  end.

(* ---- map index: keys zero-padded to the mapper width (the code panics on longer keys) *)
Definition pad (w : nat) (k : bytes) : bytes := k ++ repeat 0 (w - length k).
Fixpoint map_get (w : nat) (es : list ientry) (key : bytes) (acc : option (N * N)) : option (N * N) :=
  match es with
  | [] => acc
  | e :: r => map_get w r key (if bytes_eqb (pad w (ikey e)) (pad w key) then Some (ival e) else acc)
  end.

(* ---- disk index: binary search over byte offsets with SeekNext *)
Definition find_at (c : codec) (seekLen : N) (f : bytes) (off : N) : res ientry :=
  match seek_next c seekLen f off with
  | Err e => Err e
  | Ok (_, r) => pb_dec_index_entry (match r with Some p => p | None => [] end)
  end.

(* returns offset, entry (if any), found *)
Fixpoint disk_bs_loop (fuel : nat) (c : codec) (seekLen : N) (f : bytes) (key : bytes) (i j : N)
  : res N :=
  match fuel with
  | O => Err OutOfFuel
  | S k =>
      if i <? j then
        let h := (i + j) / 2 in
        match find_at c seekLen f h with
        | Err EOF => disk_bs_loop k c seekLen f key i h
        | Err e => Err e
        | Ok e =>
            match bcmp (ikey e) key with
            | Lt => disk_bs_loop k c seekLen f key (h + 1) j
            | _ => disk_bs_loop k c seekLen f key i h
            end
        end
      else Ok i
  end.

Definition disk_search (c : codec) (seekLen : N) (f : bytes) (key : bytes) : res (N * option ientry * bool) :=
  let n := lenN f in
  match disk_bs_loop (S (N.to_nat (N.log2 (n + 1)) + 2)) c seekLen f key 0 n with
  | Err e => Err e
  | Ok i =>
      match find_at c seekLen f i with
      | Err EOF => Ok (n, None, false)
      | Err e => Err e
      | Ok e => Ok (i, Some e, (i <? n) && beqb (ikey e) key)
      end
  end.

(* DiskKeyIndexIterator: entries whose record starts in [cur, end] *)
Fixpoint disk_iter (fuel : nat) (c : codec) (seekLen : N) (f : bytes) (cur endo : N) : res (list ientry) :=
  match fuel with
  | O => Err OutOfFuel
  | S k =>
      if endo <? cur then Ok []
      else match seek_next c seekLen f cur with
           | Err EOF => Ok []
           | Err e => Err e
           | Ok (o, r) =>
               match pb_dec_index_entry (match r with Some p => p | None => [] end) with
               | Err e => Err e
               | Ok e => match disk_iter k c seekLen f (o + 1) endo with
                         | Ok es => Ok (e :: es)
                         | Err e' => Err e'
                         end
               end
           end
  end.
