(* C03, disk loader: the binary search over byte offsets of the index file (using SeekNext) and
   the offset-range iterators answer like the sorted map - for every scan window >= 4, provided no
   key embeds a complete record image of the index file's format (inherent to seeking by marker). *)
From GoSST Require Import Base.Bytes Base.Order Base.Crc Base.ProtoWire Base.ProtoWireFacts.
From GoSST Require Import RecordIO.Format RecordIO.FormatFacts RecordIO.Writer RecordIO.SeqReader RecordIO.MmapReader RecordIO.WriteReadFacts RecordIO.SeekFacts.
From GoSST Require Import SST.TableWriter SST.TableWriterFacts SST.Index SST.IndexFacts SST.TableReader SST.TableReaderFacts.
From Coq Require Import Lia Sorting.Sorted.
Local Open Scope N_scope.

(* ================================================================== part 1: records with offsets *)

(* an index entry together with the start offset of its record in the index file *)
Definition orec := (N * ientry)%type.
Definition okey (p : orec) : bytes := ikey (snd p).
Definition osorted (l : list orec) : Prop := StronglySorted (fun a b : orec => fst a < fst b) l.
Definition ksorted (l : list orec) : Prop :=
  StronglySorted (fun a b : orec => bcmp (okey a) (okey b) = Lt) l.

(* the first record starting at or after an offset *)
Fixpoint faa (off : N) (l : list orec) : option orec :=
  match l with
  | [] => None
  | p :: r => if off <=? fst p then Some p else faa off r
  end.

Lemma osorted_inv p r : osorted (p :: r) -> osorted r /\ Forall (fun q => fst p < fst q) r.
Proof. intros H. apply StronglySorted_inv in H. exact H. Qed.

Lemma ksorted_inv p r : ksorted (p :: r) -> ksorted r /\ Forall (fun q => bcmp (okey p) (okey q) = Lt) r.
Proof. intros H. apply StronglySorted_inv in H. exact H. Qed.

Lemma StronglySorted_filter {A} (R : A -> A -> Prop) (g : A -> bool) l :
  StronglySorted R l -> StronglySorted R (filter g l).
Proof.
  induction l as [|x l IH]; intros H; [constructor|].
  apply StronglySorted_inv in H. destruct H as [Hl Hx]. cbn [filter].
  destruct (g x); [|apply IH; exact Hl].
  constructor; [apply IH; exact Hl|].
  rewrite Forall_forall in *. intros y Hy. apply filter_In in Hy. apply Hx. apply Hy.
Qed.

Lemma faa_in off l p : faa off l = Some p -> In p l /\ off <= fst p.
Proof.
  induction l as [|q r IH]; [discriminate|]. cbn [faa].
  destruct (off <=? fst q) eqn:E.
  - intros H. injection H as ->. apply N.leb_le in E. split; [left; reflexivity|exact E].
  - intros H. destruct (IH H) as [Hin Hle]. split; [right; exact Hin|exact Hle].
Qed.

Lemma faa_none off l : faa off l = None -> Forall (fun p => fst p < off) l.
Proof.
  induction l as [|q r IH]; [constructor|]. cbn [faa].
  destruct (off <=? fst q) eqn:E; [discriminate|].
  intros H. apply N.leb_gt in E. constructor; [exact E|apply IH; exact H].
Qed.

Lemma faa_none_intro off l : Forall (fun p => fst p < off) l -> faa off l = None.
Proof.
  induction 1 as [|q r Hq _ IH]; [reflexivity|]. cbn [faa].
  destruct (off <=? fst q) eqn:E; [apply N.leb_le in E; lia|exact IH].
Qed.

Lemma faa_app_skip off pre suf :
  Forall (fun p => fst p < off) pre -> faa off (pre ++ suf) = faa off suf.
Proof.
  induction 1 as [|q r Hq _ IH]; [reflexivity|]. cbn [app faa].
  destruct (off <=? fst q) eqn:E; [apply N.leb_le in E; lia|exact IH].
Qed.

Lemma faa_self l p : osorted l -> In p l -> faa (fst p) l = Some p.
Proof.
  induction l as [|q r IH]; intros Hs Hin; [destruct Hin|].
  destruct (osorted_inv _ _ Hs) as [Hs' Hh]. cbn [faa].
  destruct Hin as [->|Hin].
  - rewrite N.leb_refl. reflexivity.
  - rewrite Forall_forall in Hh. pose proof (Hh p Hin) as Hlt.
    destruct (fst p <=? fst q) eqn:E; [apply N.leb_le in E; lia|]. apply IH; assumption.
Qed.

(* ---- the predicate the binary search bisects on *)
Definition pbk (key : bytes) (l : list orec) (off : N) : bool :=
  match faa off l with Some p => negb (bltb (okey p) key) | None => true end.

Lemma pbk_mono key l : ksorted l -> forall x y, x <= y -> pbk key l x = true -> pbk key l y = true.
Proof.
  unfold pbk. induction l as [|q r IH]; intros Hs x y Hxy Hx; [reflexivity|].
  destruct (ksorted_inv _ _ Hs) as [Hs' Hh]. cbn [faa] in *.
  destruct (x <=? fst q) eqn:Ex.
  - destruct (y <=? fst q) eqn:Ey; [exact Hx|].
    destruct (faa y r) as [p|] eqn:Ef; [|reflexivity].
    apply faa_in in Ef. destruct Ef as [Hin _].
    rewrite Forall_forall in Hh. pose proof (Hh p Hin) as Hlt.
    unfold bltb in *. destruct (bcmp (okey p) key) eqn:Ec; try reflexivity.
    rewrite (bcmp_trans _ _ _ Hlt Ec) in Hx. discriminate.
  - apply N.leb_gt in Ex. destruct (y <=? fst q) eqn:Ey; [apply N.leb_le in Ey; lia|].
    apply (IH Hs' x y Hxy Hx).
Qed.

Lemma pbk_self key l p : osorted l -> In p l -> pbk key l (fst p) = negb (bltb (okey p) key).
Proof. intros Hs Hin. unfold pbk. rewrite (faa_self l p Hs Hin). reflexivity. Qed.

(* offsets below s hold exactly the keys below the target *)
Definition part (key : bytes) (l : list orec) (s : N) : Prop :=
  forall p, In p l -> (fst p < s <-> bcmp (okey p) key = Lt).
Definition least (key : bytes) (l : list orec) (L : N) : Prop :=
  (forall x, x < L -> pbk key l x = false) /\ pbk key l L = true.

Lemma least_part key l L : osorted l -> ksorted l -> least key l L -> part key l L.
Proof.
  intros Ho Hk [Hlt HL] p Hin. pose proof (pbk_self key l p Ho Hin) as Hp. unfold bltb in Hp. split.
  - intros H. rewrite (Hlt _ H) in Hp. destruct (bcmp (okey p) key); try discriminate; reflexivity.
  - intros H. rewrite H in Hp. cbn [negb] in Hp.
    destruct (N.lt_ge_cases (fst p) L) as [Hl|Hge]; [exact Hl|].
    rewrite (pbk_mono key l Hk L (fst p) Hge HL) in Hp. discriminate.
Qed.

Lemma least_pred key l L : osorted l -> ksorted l -> least key l L ->
  L = 0 \/ exists e, In (L - 1, e) l.
Proof.
  intros Ho Hk HLst. pose proof (least_part key l L Ho Hk HLst) as Hpart. destruct HLst as [Hlt HL].
  destruct (N.eq_dec L 0) as [->|Hnz]; [left; reflexivity|right].
  assert (Hp : pbk key l (L - 1) = false) by (apply Hlt; lia).
  unfold pbk in Hp. destruct (faa (L - 1) l) as [p|] eqn:Ef; [|discriminate].
  destruct (faa_in _ _ _ Ef) as [Hin Hle].
  assert (Hc : bcmp (okey p) key = Lt).
  { unfold bltb in Hp. destruct (bcmp (okey p) key); try discriminate; reflexivity. }
  apply (Hpart p Hin) in Hc. exists (snd p). replace (L - 1) with (fst p) by lia.
  destruct p as [o e]. exact Hin.
Qed.

Lemma part_sub key l l' s : (forall p, In p l' -> In p l) -> part key l s -> part key l' s.
Proof. intros Hsub Hp p Hin. apply Hp. apply Hsub. exact Hin. Qed.

Lemma part_tail key q r s : part key (q :: r) s -> part key r s.
Proof. apply part_sub. intros p Hin. right. exact Hin. Qed.

(* what a search for the key finds at the partition point *)
Lemma faa_find key l s : osorted l -> ksorted l -> part key l s ->
  find (fun e => beqb (ikey e) key) (map snd l)
  = match faa s l with
    | Some p => if beqb (okey p) key then Some (snd p) else None
    | None => None
    end.
Proof.
  induction l as [|q r IH]; intros Ho Hk Hp; [reflexivity|].
  destruct (osorted_inv _ _ Ho) as [Ho' _]. destruct (ksorted_inv _ _ Hk) as [Hk' Hh].
  pose proof (Hp q (or_introl eq_refl)) as Hq.
  cbn [map find faa]. fold (okey q).
  destruct (s <=? fst q) eqn:E.
  - apply N.leb_le in E. destruct (beqb (okey q) key) eqn:Eb; [reflexivity|].
    apply Forall_false_find. apply Forall_map. rewrite Forall_forall in *. intros p Hin.
    pose proof (Hh p Hin) as Hlt. fold (okey p). unfold beqb in *.
    destruct (bcmp (okey q) key) eqn:Ec; [discriminate| |].
    + assert (Hx : fst q < s) by (apply Hq; reflexivity). lia.
    + apply (cmp_gt_lt bcmp bcmp_laws) in Ec.
      pose proof (bcmp_trans _ _ _ Ec Hlt) as Hkp.
      rewrite (bcmp_antisym key (okey p)), Hkp. reflexivity.
  - apply N.leb_gt in E. apply Hq in E. unfold beqb at 1. rewrite E.
    apply IH; [exact Ho'|exact Hk'|exact (part_tail _ _ _ _ Hp)].
Qed.

(* ---- the iterator over an offset-sorted list whose offsets are all >= cur *)
Fixpoint iter2 (l : list orec) (cur endo : N) : list ientry :=
  match l with
  | [] => []
  | p :: r => if endo <? cur then [] else snd p :: iter2 r (fst p + 1) endo
  end.

Lemma iter2_stop l cur endo : endo < cur -> iter2 l cur endo = [].
Proof.
  intros H. destruct l as [|p r]; [reflexivity|]. cbn [iter2].
  apply N.ltb_lt in H. rewrite H. reflexivity.
Qed.

Lemma iter2_all l : forall cur endo, osorted l -> Forall (fun p => cur <= fst p < endo) l ->
  iter2 l cur endo = map snd l.
Proof.
  induction l as [|q r IH]; intros cur endo Ho Hf; [reflexivity|].
  destruct (osorted_inv _ _ Ho) as [Ho' Hh].
  pose proof (Forall_inv Hf) as Hq. pose proof (Forall_inv_tail Hf) as Hf'. cbv beta in Hq.
  cbn [iter2 map]. destruct (endo <? cur) eqn:E; [apply N.ltb_lt in E; lia|].
  f_equal. apply IH; [exact Ho'|].
  rewrite Forall_forall in *. intros p Hin. pose proof (Hh p Hin). pose proof (Hf' p Hin). lia.
Qed.

(* upper bound found: the end offset is the partition point of hi, and hi is present *)
Lemma iter2_found hi l endo : forall cur, osorted l -> ksorted l -> cur <= endo ->
  part hi l endo -> (exists p, In p l /\ bcmp (okey p) hi = Eq) ->
  iter2 l cur endo = map snd (filter (fun p => bleb (okey p) hi) l).
Proof.
  induction l as [|q r IH]; intros cur Ho Hk Hc Hp [p [Hin He]]; [destruct Hin|].
  destruct (osorted_inv _ _ Ho) as [Ho' _]. destruct (ksorted_inv _ _ Hk) as [Hk' Hh].
  pose proof (Hp q (or_introl eq_refl)) as Hq.
  cbn [iter2 filter]. destruct (endo <? cur) eqn:E; [apply N.ltb_lt in E; lia|].
  assert (Hle : bcmp (okey q) hi <> Gt).
  { destruct Hin as [->|Hin]; [rewrite He; discriminate|].
    rewrite Forall_forall in Hh. pose proof (Hh p Hin) as Hlt.
    apply bcmp_eq in He. rewrite He in Hlt. rewrite Hlt. discriminate. }
  assert (Hb : bleb (okey q) hi = true).
  { unfold bleb. destruct (bcmp (okey q) hi); try reflexivity. congruence. }
  rewrite Hb. cbn [map]. f_equal.
  destruct (N.lt_ge_cases (fst q) endo) as [Hlt|Hge].
  - apply IH; [exact Ho'|exact Hk'|lia|exact (part_tail _ _ _ _ Hp)|].
    exists p. split; [|exact He]. destruct Hin as [->|Hin]; [|exact Hin].
    apply Hq in Hlt. congruence.
  - rewrite iter2_stop by lia.
    rewrite Forall_false_filter; [reflexivity|].
    rewrite Forall_forall in *. intros p' Hin'. pose proof (Hh p' Hin') as Hlt.
    assert (Heq : bcmp (okey q) hi = Eq).
    { destruct (bcmp (okey q) hi) eqn:Ec; [reflexivity| |congruence].
      assert (Hx : fst q < endo) by (apply Hq; reflexivity). lia. }
    apply bcmp_eq in Heq. rewrite Heq in Hlt. unfold bleb.
    rewrite (bcmp_antisym hi (okey p')), Hlt. reflexivity.
Qed.

(* upper bound absent: the end offset is the start of the last record below hi (or beyond all) *)
Lemma iter2_notfound hi l endo : forall cur, osorted l -> ksorted l ->
  Forall (fun p => cur <= fst p) l ->
  (forall p, In p l -> (fst p <= endo <-> bcmp (okey p) hi = Lt)) ->
  (forall p, In p l -> bcmp (okey p) hi <> Eq) ->
  (cur <= endo -> Forall (fun p => fst p <= endo) l \/ exists e, In (endo, e) l) ->
  iter2 l cur endo = map snd (filter (fun p => bleb (okey p) hi) l).
Proof.
  induction l as [|q r IH]; intros cur Ho Hk Hlow Hp Hne Hend; [reflexivity|].
  destruct (osorted_inv _ _ Ho) as [Ho' Hoh]. destruct (ksorted_inv _ _ Hk) as [Hk' _].
  cbn [iter2]. destruct (endo <? cur) eqn:E.
  - apply N.ltb_lt in E. rewrite Forall_false_filter; [reflexivity|].
    rewrite Forall_forall in *. intros p Hin. pose proof (Hlow p Hin) as Hl.
    unfold bleb. destruct (bcmp (okey p) hi) eqn:Ec; [|apply (Hp p Hin) in Ec; lia|reflexivity].
    elim (Hne p Hin Ec).
  - apply N.ltb_ge in E.
    assert (Hq : fst q <= endo).
    { destruct (Hend E) as [Hall|[e Hin]]; [exact (Forall_inv Hall)|].
      destruct Hin as [->|Hin]; [cbn [fst]; lia|].
      rewrite Forall_forall in Hoh. pose proof (Hoh _ Hin) as Hlt. cbn [fst] in Hlt. lia. }
    pose proof (proj1 (Hp q (or_introl eq_refl)) Hq) as Hlt.
    cbn [filter]. unfold bleb at 1. rewrite Hlt. cbn [map]. f_equal.
    apply IH; [exact Ho'|exact Hk'| | | |].
    + rewrite Forall_forall in *. intros p Hin. pose proof (Hoh p Hin). lia.
    + intros p Hin. apply Hp. right. exact Hin.
    + intros p Hin. apply Hne. right. exact Hin.
    + intros Hc. destruct (Hend E) as [Hall|[e Hin]]; [left; exact (Forall_inv_tail Hall)|].
      right. exists e. destruct Hin as [Heq|Hin]; [|exact Hin].
      rewrite Heq in Hc. cbn [fst] in Hc. lia.
Qed.

(* ---- lower side: the records from the partition point of lo on are those with key >= lo *)
Lemma part_filter lo l s : part lo l s ->
  filter (fun p => s <=? fst p) l = filter (fun p => negb (bltb (okey p) lo)) l.
Proof.
  intros Hp. apply filter_ext_in. intros p Hin. pose proof (Hp p Hin) as H. unfold bltb.
  destruct (s <=? fst p) eqn:E.
  - apply N.leb_le in E. destruct (bcmp (okey p) lo) eqn:Ec; try reflexivity.
    assert (Hx : fst p < s) by (apply H; reflexivity). lia.
  - apply N.leb_gt in E. apply H in E. rewrite E. reflexivity.
Qed.

Lemma sorted_split s l : osorted l ->
  exists pre, l = pre ++ filter (fun p => s <=? fst p) l /\ Forall (fun p => fst p < s) pre.
Proof.
  induction l as [|q r IH]; intros Ho; [exists []; split; [reflexivity|constructor]|].
  destruct (osorted_inv _ _ Ho) as [Ho' Hh]. cbn [filter].
  destruct (s <=? fst q) eqn:E.
  - apply N.leb_le in E. exists []. split; [|constructor]. cbn [app]. f_equal.
    symmetry. apply Forall_true_filter. rewrite Forall_forall in *. intros p Hin.
    pose proof (Hh p Hin). apply N.leb_le. lia.
  - apply N.leb_gt in E. destruct (IH Ho') as [pre [Heq Hpre]].
    exists (q :: pre). split; [cbn [app]; f_equal; exact Heq|constructor; assumption].
Qed.

Lemma map_snd_filter (g : bytes -> bool) (l : list orec) :
  map snd (filter (fun p => g (okey p)) l) = filter (fun e => g (ikey e)) (map snd l).
Proof.
  induction l as [|q r IH]; [reflexivity|]. cbn [filter map]. fold (okey q).
  destruct (g (okey q)); cbn [map]; rewrite IH; reflexivity.
Qed.

Lemma bleb_negb_bltb a b : bleb a b = negb (bltb b a).
Proof. unfold bleb, bltb. rewrite (bcmp_antisym a b). destruct (bcmp a b); reflexivity. Qed.

Lemma range_filter lo hi (l : list orec) :
  map snd (filter (fun p => bleb (okey p) hi) (filter (fun p => negb (bltb (okey p) lo)) l))
  = filter (fun e => bleb lo (ikey e) && bleb (ikey e) hi) (map snd l).
Proof.
  induction l as [|q r IH]; [reflexivity|]. cbn [filter map]. fold (okey q).
  rewrite (bleb_negb_bltb lo (okey q)).
  destruct (negb (bltb (okey q) lo)); cbn [filter andb]; [|exact IH].
  destruct (bleb (okey q) hi); cbn [map]; rewrite IH; reflexivity.
Qed.

(* ================================================================== part 2: the disk index over a file
   whose seeks are described by an offset-sorted, key-sorted list of records *)
Definition pbe (e : ientry) : bytes := pb_index_entry (fst (fst e)) (snd (fst e)) (snd e).

Section Abs.
  Variables (c : codec) (sl : N) (f : bytes) (recs : list orec).
  Local Notation n := (lenN f).
  Hypothesis Hseek : forall off, off <= n ->
    seek_next c sl f off
    = match faa off recs with Some p => Ok (fst p, Some (pbe (snd p))) | None => Err EOF end.
  Hypothesis Hdec : forall p, In p recs -> pb_dec_index_entry (pbe (snd p)) = Ok (snd p).
  Hypothesis Hos : osorted recs.
  Hypothesis Hks : ksorted recs.
  Hypothesis Hbound : forall p, In p recs -> fst p < n.

  Lemma find_at_faa off : off <= n ->
    find_at c sl f off = match faa off recs with Some p => Ok (snd p) | None => Err EOF end.
  Proof.
    intros Ho. unfold find_at. rewrite (Hseek off Ho).
    destruct (faa off recs) as [p|] eqn:Ef; [|reflexivity].
    apply Hdec. apply (faa_in _ _ _ Ef).
  Qed.

  Lemma mid_bounds i j : i < j -> i <= (i + j) / 2 < j.
  Proof.
    intros H. pose proof (N.div_mod' (i + j) 2) as Hd.
    pose proof (N.mod_lt (i + j) 2 ltac:(lia)) as Hm.
    generalize dependent ((i + j) / 2). generalize dependent ((i + j) mod 2). intros r Hr h Hd. lia.
  Qed.

  Lemma mid_width i j k : i < j -> j - i < 2 ^ N.of_nat (S k) ->
    (i + j) / 2 - i < 2 ^ N.of_nat k /\ j - ((i + j) / 2 + 1) < 2 ^ N.of_nat k.
  Proof.
    intros H Hw. rewrite Nat2N.inj_succ, N.pow_succ_r' in Hw.
    pose proof (N.div_mod' (i + j) 2) as Hd.
    pose proof (N.mod_lt (i + j) 2 ltac:(lia)) as Hm.
    generalize dependent ((i + j) / 2). generalize dependent ((i + j) mod 2). intros r Hr h Hd.
    generalize dependent (2 ^ N.of_nat k). intros w Hw. lia.
  Qed.

  (* ---- the binary search over offsets *)
  Lemma bs_loop_ok key : forall k i j, i <= j -> j <= n -> j - i < 2 ^ N.of_nat k ->
    (forall x, x < i -> pbk key recs x = false) -> pbk key recs j = true ->
    exists L, disk_bs_loop (S k) c sl f key i j = Ok L /\ L <= n /\ least key recs L.
  Proof.
    induction k as [|k IH]; intros i j Hij Hjn Hw Hi Hj.
    - change (2 ^ N.of_nat 0) with 1 in Hw. assert (i = j) by lia. subst j.
      exists i. cbn [disk_bs_loop]. rewrite N.ltb_irrefl.
      split; [reflexivity|]. split; [exact Hjn|]. split; assumption.
    - cbn [disk_bs_loop]. destruct (i <? j) eqn:E.
      2:{ apply N.ltb_ge in E. assert (i = j) by lia. subst j.
          exists i. split; [reflexivity|]. split; [exact Hjn|]. split; assumption. }
      apply N.ltb_lt in E. cbv zeta.
      pose proof (mid_bounds i j E) as Hh. destruct (mid_width i j k E Hw) as [Hw1 Hw2].
      set (h := (i + j) / 2) in *.
      rewrite (find_at_faa h) by lia.
      assert (Hup : pbk key recs h = true ->
                exists L, disk_bs_loop (S k) c sl f key i h = Ok L /\ L <= n /\ least key recs L).
      { intros Hph. apply IH; try assumption; lia. }
      assert (Hdown : pbk key recs h = false ->
                exists L, disk_bs_loop (S k) c sl f key (h + 1) j = Ok L /\ L <= n /\ least key recs L).
      { intros Hph. apply IH; try assumption; try lia.
        intros x Hx. destruct (pbk key recs x) eqn:Ex; [|reflexivity].
        rewrite (pbk_mono key recs Hks x h ltac:(lia) Ex) in Hph. discriminate. }
      unfold pbk in Hup, Hdown.
      destruct (faa h recs) as [p|]; [|apply Hup; reflexivity].
      unfold bltb in Hup, Hdown. fold (okey p).
      destruct (bcmp (okey p) key); [apply Hup|apply Hdown|apply Hup]; reflexivity.
  Qed.

  Lemma pbk_end key : pbk key recs n = true.
  Proof.
    unfold pbk. rewrite faa_none_intro; [reflexivity|].
    apply Forall_forall. exact Hbound.
  Qed.

  Lemma bs_top key :
    exists L, disk_bs_loop (S (N.to_nat (N.log2 (n + 1)) + 2)) c sl f key 0 n = Ok L
              /\ L <= n /\ least key recs L.
  Proof.
    apply bs_loop_ok; [lia|lia| |intros x Hx; lia|apply pbk_end].
    rewrite Nat2N.inj_add, N2Nat.id. change (N.of_nat 2) with 2.
    pose proof (N.log2_spec (n + 1) ltac:(lia)) as [_ Hs].
    rewrite N.pow_add_r. rewrite N.pow_succ_r' in Hs. change (2 ^ 2) with 4. lia.
  Qed.

  (* what a search returns as offset: a partition point that is 0, one past a record start, or
     the file length *)
  Definition sres (key : bytes) (s : N) : Prop :=
    part key recs s /\ s <= n /\ (s = 0 \/ (exists e, In (s - 1, e) recs) \/ s = n).

  Lemma search_ok key :
    exists s oe found, disk_search c sl f key = Ok (s, oe, found) /\ sres key s
      /\ (if found then oe else None) = find (fun e => beqb (ikey e) key) (map snd recs)
      /\ (found = true -> oe <> None).
  Proof.
    destruct (bs_top key) as [L (Hloop & HLn & Hleast)].
    pose proof (least_part key recs L Hos Hks Hleast) as Hpart.
    pose proof (least_pred key recs L Hos Hks Hleast) as Hpred.
    pose proof (faa_find key recs L Hos Hks Hpart) as Hfind.
    unfold disk_search. cbv zeta. rewrite Hloop, (find_at_faa L HLn).
    destruct (faa L recs) as [p|] eqn:Ef.
    - destruct (faa_in _ _ _ Ef) as [Hin Hle]. pose proof (Hbound p Hin) as Hb.
      assert (HLt : (L <? n) = true) by (apply N.ltb_lt; lia).
      exists L, (Some (snd p)), ((L <? n) && beqb (ikey (snd p)) key)%bool.
      split; [reflexivity|]. split.
      { split; [exact Hpart|]. split; [exact HLn|]. destruct Hpred as [->|He]; [left; reflexivity|right; left; exact He]. }
      rewrite HLt. cbn [andb]. split; [rewrite Hfind; reflexivity|discriminate].
    - exists n, None, false. split; [reflexivity|]. split.
      { split; [|split; [lia|right; right; reflexivity]].
        intros p Hin. pose proof (Hbound p Hin) as Hb. apply faa_none in Ef.
        rewrite Forall_forall in Ef. pose proof (Ef p Hin) as HpL. apply (Hpart p Hin) in HpL.
        split; intros _; assumption. }
      split; [rewrite Hfind; reflexivity|discriminate].
  Qed.

  (* ---- the offset-range iterator *)
  Lemma disk_iter_suffix endo : endo <= n -> forall suf pre fuel cur,
    recs = pre ++ suf -> Forall (fun p => fst p < cur) pre -> Forall (fun p => cur <= fst p) suf ->
    osorted suf -> (N.to_nat (n - cur) < fuel)%nat ->
    disk_iter fuel c sl f cur endo = Ok (iter2 suf cur endo).
  Proof.
    intros He. induction suf as [|q r IH]; intros pre fuel cur Hr Hpre Hsuf Hs Hfuel;
      (destruct fuel as [|k]; [lia|]); cbn [disk_iter iter2];
      (destruct (endo <? cur) eqn:E; [reflexivity|]); apply N.ltb_ge in E;
      rewrite (Hseek cur) by lia; rewrite Hr, (faa_app_skip cur pre _ Hpre).
    - reflexivity.
    - pose proof (Forall_inv Hsuf) as Hq. cbv beta in Hq.
      destruct (osorted_inv _ _ Hs) as [Hs' Hh].
      assert (Hin : In q recs) by (rewrite Hr; apply in_or_app; right; left; reflexivity).
      pose proof (Hbound q Hin) as Hb.
      cbn [faa]. replace (cur <=? fst q) with true by (symmetry; apply N.leb_le; exact Hq).
      rewrite (Hdec q Hin).
      rewrite (IH (pre ++ [q]) k (fst q + 1)); [reflexivity| | | |exact Hs'|lia].
      + rewrite <- app_assoc. exact Hr.
      + apply Forall_app. split.
        * eapply Forall_impl; [|exact Hpre]. intros p Hp. cbv beta in Hp. lia.
        * constructor; [lia|constructor].
      + eapply Forall_impl; [|exact Hh]. intros p Hp. cbv beta in Hp. lia.
  Qed.

  Definition from_off (s : N) : list orec := filter (fun p => s <=? fst p) recs.

  Lemma from_off_in s p : In p (from_off s) <-> In p recs /\ s <= fst p.
  Proof. unfold from_off. rewrite filter_In, N.leb_le. reflexivity. Qed.

  Lemma disk_iter_ok cur endo : endo <= n ->
    disk_iter (S (length f)) c sl f cur endo = Ok (iter2 (from_off cur) cur endo).
  Proof.
    intros He. destruct (sorted_split cur recs Hos) as [pre [Heq Hpre]].
    apply (disk_iter_suffix endo He (from_off cur) pre); try assumption.
    - apply Forall_forall. intros p Hp. apply from_off_in in Hp. apply Hp.
    - apply StronglySorted_filter. exact Hos.
    - unfold lenN. lia.
  Qed.

  Lemma from_off_osorted s : osorted (from_off s).
  Proof. apply StronglySorted_filter. exact Hos. Qed.
  Lemma from_off_ksorted s : ksorted (from_off s).
  Proof. apply StronglySorted_filter. exact Hks. Qed.

  Lemma iter_from s : s <= n -> iter2 (from_off s) s n = map snd (from_off s).
  Proof.
    intros Hs. apply iter2_all; [apply from_off_osorted|].
    apply Forall_forall. intros p Hp. apply from_off_in in Hp. destruct Hp as [Hin Hle].
    pose proof (Hbound p Hin). lia.
  Qed.

  (* ---- the four index operations *)
  Definition rec_entries : list ientry := map snd recs.

  Lemma disk_get key :
    match disk_search c sl f key with
    | Err e => Err e
    | Ok (_, Some e, true) => Ok (Some (ival e))
    | Ok _ => Ok None
    end = Ok (option_map ival (find (fun e => beqb (ikey e) key) rec_entries)).
  Proof.
    destruct (search_ok key) as (s & oe & found & Hs & _ & Hfind & _). rewrite Hs.
    unfold rec_entries. rewrite <- Hfind. destruct found; destruct oe as [e|]; reflexivity.
  Qed.

  Lemma disk_from key :
    match disk_search c sl f key with
    | Err e => Err e
    | Ok (off, _, _) => disk_iter (S (length f)) c sl f off n
    end = Ok (filter (fun e => negb (bltb (ikey e) key)) rec_entries).
  Proof.
    destruct (search_ok key) as (s & oe & found & Hs & (Hpart & Hsn & _) & _). rewrite Hs.
    rewrite (disk_iter_ok s n (N.le_refl _)), (iter_from s Hsn).
    unfold from_off. rewrite (part_filter key recs s Hpart).
    f_equal. apply (map_snd_filter (fun k => negb (bltb k key))).
  Qed.

  Definition disk_between (lo hi : bytes) : res (option (list ientry)) :=
    match disk_search c sl f lo with
    | Err e => Err e
    | Ok (s, _, _) =>
        match disk_search c sl f hi with
        | Err e => Err e
        | Ok (e, _, found) =>
            let fuel := S (length f) in
            if found then
              match disk_iter fuel c sl f s e with Ok l => Ok (Some l) | Err x => Err x end
            else if e =? 0 then Ok (Some [])
            else match disk_iter fuel c sl f s (e - 1) with Ok l => Ok (Some l) | Err x => Err x end
        end
    end.

  Lemma le_lt_key k lo hi : bcmp lo hi <> Gt -> bcmp k lo = Lt -> bcmp k hi = Lt.
  Proof. intros Hab H. exact (cmp_lt_le_trans bcmp bcmp_laws k lo hi H Hab). Qed.

  Lemma disk_between_ok lo hi : bcmp lo hi <> Gt ->
    disk_between lo hi = Ok (Some (filter (fun e => bleb lo (ikey e) && bleb (ikey e) hi) rec_entries)).
  Proof.
    intros Hab.
    destruct (search_ok lo) as (s & oe1 & f1 & Hs1 & (Hp1 & Hsn & Hmin1) & _).
    destruct (search_ok hi) as (e & oe2 & found & Hs2 & (Hp2 & Hen & Hmin2) & Hfind & Hsome).
    unfold disk_between. rewrite Hs1, Hs2. cbv zeta.
    unfold rec_entries. rewrite <- range_filter, <- (part_filter lo recs s Hp1). fold (from_off s).
    assert (Hsub : forall p, In p (from_off s) -> In p recs) by (intros p Hp; apply from_off_in in Hp; apply Hp).
    destruct found.
    - (* the upper bound is present *)
      specialize (Hsome eq_refl). destruct oe2 as [eh|]; [|congruence]. symmetry in Hfind.
      apply find_some in Hfind. destruct Hfind as [Hin Hb].
      apply in_map_iff in Hin. destruct Hin as [p [Hpe Hin]]. subst eh. fold (okey p) in Hb.
      assert (Heq : bcmp (okey p) hi = Eq).
      { unfold beqb in Hb. destruct (bcmp (okey p) hi); try discriminate; reflexivity. }
      assert (Hnlt : bcmp (okey p) lo <> Lt).
      { intros Hc. rewrite (le_lt_key _ lo hi Hab Hc) in Heq. discriminate. }
      assert (Hps : s <= fst p).
      { destruct (N.lt_ge_cases (fst p) s) as [Hl|Hg]; [|exact Hg]. apply (Hp1 p Hin) in Hl. congruence. }
      assert (Hse : s <= e).
      { destruct Hmin1 as [ -> | [ [e' Hin'] | -> ] ]; [lia| |].
        - destruct (N.eq_dec s 0) as [->|Hnz]; [lia|].
          assert (Hl : bcmp (okey (s - 1, e')) lo = Lt) by (apply (Hp1 _ Hin'); cbn [fst]; lia).
          apply (le_lt_key _ lo hi Hab) in Hl. apply (Hp2 _ Hin') in Hl. cbn [fst] in Hl. lia.
        - pose proof (Hbound p Hin). lia. }
      rewrite (disk_iter_ok s e Hen).
      rewrite (iter2_found hi (from_off s) e s (from_off_osorted s) (from_off_ksorted s) Hse
                 (part_sub hi recs _ e Hsub Hp2)); [reflexivity|].
      exists p. split; [apply from_off_in; split; assumption|exact Heq].
    - (* the upper bound is absent *)
      assert (Hne : forall p, In p recs -> bcmp (okey p) hi <> Eq).
      { intros p Hin Hc. symmetry in Hfind.
        pose proof (find_none _ _ Hfind (snd p) (in_map snd _ _ Hin)) as Hb. cbv beta in Hb.
        fold (okey p) in Hb. unfold beqb in Hb. rewrite Hc in Hb. discriminate. }
      destruct (e =? 0) eqn:Ez.
      + apply N.eqb_eq in Ez. subst e. rewrite Forall_false_filter; [reflexivity|].
        apply Forall_forall. intros p Hp. apply Hsub in Hp. unfold bleb.
        destruct (bcmp (okey p) hi) eqn:Ec; [elim (Hne p Hp Ec)| |reflexivity].
        apply (Hp2 p Hp) in Ec. lia.
      + apply N.eqb_neq in Ez. rewrite (disk_iter_ok s (e - 1)) by lia.
        rewrite (iter2_notfound hi (from_off s) (e - 1) s (from_off_osorted s) (from_off_ksorted s));
          [reflexivity| | | |].
        * apply Forall_forall. intros p Hp. apply from_off_in in Hp. apply Hp.
        * intros p Hp. apply Hsub in Hp. rewrite <- (Hp2 p Hp). lia.
        * intros p Hp. apply Hne. apply Hsub. exact Hp.
        * intros Hc. destruct Hmin2 as [ -> | [ [e' Hin'] | -> ] ]; [lia| |].
          -- right. exists e'. apply from_off_in. split; [exact Hin'|exact Hc].
          -- left. apply Forall_forall. intros p Hp. apply Hsub in Hp. pose proof (Hbound p Hp). lia.
  Qed.

  Lemma disk_all : Forall (fun p => 8 <= fst p) recs ->
    disk_iter (S (length f)) c sl f 8 n = Ok rec_entries.
  Proof.
    intros Hlow. rewrite (disk_iter_ok 8 n (N.le_refl _)).
    assert (Hall : from_off 8 = recs).
    { unfold from_off. apply Forall_true_filter. eapply Forall_impl; [|exact Hlow].
      intros p Hp. apply N.leb_le. exact Hp. }
    rewrite Hall. f_equal. apply iter2_all; [exact Hos|].
    rewrite Forall_forall in *. intros p Hp. pose proof (Hlow p Hp). pose proof (Hbound p Hp). lia.
  Qed.
End Abs.

(* ================================================================== part 3: the written index file *)

Lemma first_map_faa (g := fun p : orec => (fst p, Some (pbe (snd p)))) off l :
  first_at_or_after off (map g l) = option_map g (faa off l).
Proof.
  induction l as [|q r IH]; [reflexivity|]. cbn [map first_at_or_after faa]. unfold g at 1.
  destruct (off <=? fst q); [reflexivity|exact IH].
Qed.

Lemma osorted_map_split (g := fun p : orec => (fst p, Some (pbe (snd p)))) :
  forall pre l o r post, osorted l -> map g l = pre ++ (o, r) :: post ->
  Forall (fun p : N * option bytes => fst p < o) pre.
Proof.
  induction pre as [|x pre IH]; intros l o r post Ho Heq; [constructor|].
  destruct l as [|q l']; [discriminate|]. cbn [map app] in Heq. injection Heq as Hx Heq'.
  destruct (osorted_inv _ _ Ho) as [Ho' Hh].
  constructor; [|exact (IH l' o r post Ho' Heq')].
  assert (Hin : In (o, r) (map g l')) by (rewrite Heq'; apply in_or_app; right; left; reflexivity).
  apply in_map_iff in Hin. destruct Hin as [p [Hp Hin]].
  rewrite Forall_forall in Hh. pose proof (Hh p Hin) as Hlt.
  subst x. unfold g in Hp. injection Hp as Ho1 _. unfold g. cbn [fst]. lia.
Qed.

Section Facts.
  Variables ci cd : codec.
  Hypothesis ci_ok : forall x, decomp ci (comp ci x) = Ok x.
  Hypothesis cd_ok : forall x, decomp cd (comp cd x) = Ok x.
  Hypothesis ci_type : ctype ci <= 3.
  Hypothesis cd_type : ctype cd <= 3.

  (* start offsets of consecutive records *)
  Fixpoint starts (c : codec) (recs : list (option bytes)) (off : N) : list N :=
    match recs with
    | [] => []
    | r :: rest => off :: starts c rest (off + lenN (enc_rec c r))
    end.

  Definition index_recs (kvs : tpairs) : list (option bytes) :=
    map (fun e => Some (pb_index_entry (fst (fst e)) (snd (fst e)) (snd e))) (entries_of cd kvs 8).

  (* the only acceptable positions of the index file are the starts of its records *)
  Definition no_embedded (kvs : tpairs) : Prop :=
    forall o, acceptable ci (tf_index (write_table ci cd kvs)) o = true -> In o (starts ci (index_recs kvs) 8).

  (* ---- the entries with the start offsets of their records *)
  Fixpoint orecs (es : list ientry) (off : N) : list orec :=
    match es with
    | [] => []
    | e :: r => (off, e) :: orecs r (off + lenN (ienc ci e))
    end.

  Lemma map_snd_orecs es : forall off, map snd (orecs es off) = es.
  Proof. induction es as [|e r IH]; intros off; [reflexivity|]. cbn [orecs map snd]. rewrite IH. reflexivity. Qed.

  Lemma map_fst_orecs es : forall off,
    map fst (orecs es off) = starts ci (map (fun e => Some (pbe e)) es) off.
  Proof.
    induction es as [|e r IH]; intros off; [reflexivity|]. cbn [orecs map fst starts].
    rewrite IH. reflexivity.
  Qed.

  Lemma orecs_low es : forall off, Forall (fun p => off <= fst p) (orecs es off).
  Proof.
    induction es as [|e r IH]; intros off; [constructor|]. cbn [orecs].
    constructor; [cbn [fst]; lia|].
    eapply Forall_impl; [|apply IH]. intros p Hp. cbv beta in Hp. lia.
  Qed.

  Lemma orecs_osorted es : forall off, osorted (orecs es off).
  Proof.
    induction es as [|e r IH]; intros off; [constructor|]. cbn [orecs].
    constructor; [apply IH|].
    pose proof (enc_rec_pos ci ci_type (Some (pbe e))) as Hpos.
    change (enc_rec ci (Some (pbe e))) with (ienc ci e) in Hpos.
    eapply Forall_impl; [|apply orecs_low]. intros p Hp. cbv beta in Hp. cbn [fst]. lia.
  Qed.

  Lemma orecs_ksorted es : forall off, esorted es -> ksorted (orecs es off).
  Proof.
    induction es as [|e r IH]; intros off Hs; [constructor|].
    apply StronglySorted_inv in Hs. destruct Hs as [Hs' Hh]. cbn [orecs].
    constructor; [apply IH; exact Hs'|].
    apply Forall_forall. intros p Hin. unfold okey. cbn [snd].
    rewrite Forall_forall in Hh. apply Hh. rewrite <- (map_snd_orecs r (off + lenN (ienc ci e))).
    apply in_map. exact Hin.
  Qed.

  Lemma orecs_split es : forall pre o e, In (o, e) (orecs es (lenN pre)) ->
    exists pre' rest, pre ++ flat_map (ienc ci) es = pre' ++ ienc ci e ++ rest /\ lenN pre' = o.
  Proof.
    induction es as [|e0 r IH]; intros pre o e Hin; [destruct Hin|].
    cbn [orecs flat_map] in *. destruct Hin as [Heq|Hin].
    - injection Heq as Ho He. subst e0. exists pre, (flat_map (ienc ci) r). split; [reflexivity|exact Ho].
    - rewrite <- lenN_app in Hin. destruct (IH _ _ _ Hin) as (pre' & rest & Heq & Hl).
      exists pre', rest. split; [|exact Hl]. rewrite <- Heq, <- app_assoc. reflexivity.
  Qed.

  Lemma marker_at_rec pre r rest : size_ok ci r ->
    marker_at (pre ++ enc_rec ci r ++ rest) (lenN pre) = true.
  Proof.
    intros Hs. destruct (enc_rec_shape ci ci_ok r Hs) as (u & cs & z & Hu & Hc & He & _).
    unfold marker_at. apply bytes_eqb_eq. rewrite sub_app_short, He, <- app_assoc.
    change (N.to_nat 3) with 3%nat. rewrite firstn_app.
    pose proof (hdr_len u cs (isnone r) Hu Hc) as Hl.
    replace (3 - length (hdr u cs (isnone r)))%nat with 0%nat by lia.
    change (firstn 0 (z ++ rest)) with (@nil N). rewrite app_nil_r. apply hdr_starts_with_marker.
  Qed.

  (* each record of the index file: where it is, and that it reads back *)
  Lemma rec_facts es p : Forall (eok ci) es -> In p (orecs es 8) ->
    let f := file_hdr (ctype ci) ++ flat_map (ienc ci) es in
    fst p < lenN f /\ marker_at f (fst p) = true /\ read_at ci f (fst p) = Ok (Some (pbe (snd p)))
    /\ pb_dec_index_entry (pbe (snd p)) = Ok (snd p).
  Proof.
    intros Hok Hin f. destruct p as [o e]. cbn [fst snd].
    assert (He : eok ci e).
    { rewrite Forall_forall in Hok. apply Hok. rewrite <- (map_snd_orecs es 8).
      apply (in_map snd _ _ Hin). }
    destruct He as [Hsz Hdec].
    change 8 with (lenN (file_hdr (ctype ci))) in Hin.
    destruct (orecs_split es _ o e Hin) as (pre' & rest & Heq & Hl).
    subst f. rewrite Heq. subst o. unfold ienc. fold (pbe e).
    split; [|split; [|split]].
    - rewrite !lenN_app. pose proof (enc_rec_pos ci ci_type (Some (pbe e))). lia.
    - apply marker_at_rec. exact Hsz.
    - apply (read_at_one ci ci_ok ci_type). exact Hsz.
    - exact Hdec.
  Qed.

  Section Table.
    Variables (sl : N) (kvs : tpairs).
    Hypothesis Hsl : 4 <= sl.
    Hypothesis Hs : psorted kvs.
    Hypothesis Hp : Forall (pair_ok ci cd) kvs.
    Hypothesis Hv : Forall val_ok kvs.
    Hypothesis Hf : file_ok cd kvs.
    Hypothesis Hne : no_embedded kvs.

    Let ents := entries_of cd kvs 8.
    Let recs := orecs ents 8.
    Let f := ifile ci cd kvs.

    Lemma ents_ok : Forall (eok ci) ents.
    Proof. apply (entries_ok ci cd ci_type cd_type); assumption. Qed.

    Lemma t_bound : forall p, In p recs -> fst p < lenN f.
    Proof. intros p Hin. apply (rec_facts ents p ents_ok Hin). Qed.

    Lemma t_dec : forall p, In p recs -> pb_dec_index_entry (pbe (snd p)) = Ok (snd p).
    Proof. intros p Hin. apply (rec_facts ents p ents_ok Hin). Qed.

    Lemma t_os : osorted recs.
    Proof. apply orecs_osorted. Qed.

    Lemma t_seek : forall off, off <= lenN f ->
      seek_next ci sl f off
      = match faa off recs with Some p => Ok (fst p, Some (pbe (snd p))) | None => Err EOF end.
    Proof.
      intros off Hoff.
      set (g := fun p : orec => (fst p, Some (pbe (snd p)))).
      rewrite (seek_next_written ci sl f (map g recs) off Hsl Hoff).
      - unfold g. rewrite first_map_faa. destruct (faa off recs); reflexivity.
      - intros pre o r post Heq. exact (osorted_map_split pre recs o r post t_os Heq).
      - intros o r Hin. apply in_map_iff in Hin. destruct Hin as [p [Hpe Hin]].
        unfold g in Hpe. injection Hpe as Ho Hr. subst o r.
        destruct (rec_facts ents p ents_ok Hin) as (_ & Hm & Hrd & _).
        split; [exact (acceptable_intro _ _ _ _ Hm Hrd)|exact Hrd].
      - intros o Hacc. rewrite map_map. unfold g. cbn [fst].
        change (map (fun x : orec => fst x) recs) with (map fst recs).
        unfold recs. rewrite map_fst_orecs. apply Hne.
        destruct (table_files ci cd kvs Hs Hp) as [_ ->]. exact Hacc.
    Qed.

    Let bloom := fun k => existsb (bytes_eqb k) (tf_bloom (write_table ci cd kvs)).
    Let rdr := mkReader (LDisk sl) ci cd f [] (dfile cd kvs) bloom false.

    Lemma t_good : Forall2 (good rdr) ents kvs.
    Proof.
      pose proof (good_entries cd cd_ok cd_type rdr eq_refl kvs (file_hdr (ctype cd))
                    (pairs_ok_size ci cd kvs Hp) eq_refl) as HG.
      change (lenN (file_hdr (ctype cd))) with 8 in HG. exact HG.
    Qed.

    Lemma t_ks : ksorted recs.
    Proof. apply orecs_ksorted. exact (good_esorted _ _ _ t_good Hs). Qed.

    Lemma t_entries : rec_entries recs = ents.
    Proof. apply map_snd_orecs. Qed.

    Lemma t_all : idx_all rdr = Ok ents.
    Proof.
      unfold idx_all. cbn [rdr r_loader r_ci r_index_file].
      rewrite <- t_entries. apply (disk_all ci sl f recs t_seek t_dec t_os t_bound).
      apply orecs_low.
    Qed.

    Lemma t_get k : idx_get rdr k = Ok (option_map ival (find (fun e => beqb (ikey e) k) ents)).
    Proof.
      unfold idx_get. cbn [rdr r_loader r_ci r_index_file].
      rewrite <- t_entries. exact (disk_get ci sl f recs t_seek t_dec t_os t_ks t_bound k).
    Qed.

    Lemma t_from a : idx_from rdr a = Ok (filter (fun e => negb (bltb (ikey e) a)) ents).
    Proof.
      unfold idx_from. cbn [rdr r_loader r_ci r_index_file].
      rewrite <- t_entries. exact (disk_from ci sl f recs t_seek t_dec t_os t_ks t_bound a).
    Qed.

    Lemma t_between a b : idx_between rdr a b
      = match bcmp a b with Gt => Ok None | _ => disk_between ci sl f a b end.
    Proof. reflexivity. Qed.

    Lemma t_open : open_table (LDisk sl) (write_table ci cd kvs) ci cd = Ok rdr.
    Proof.
      rewrite (open_table_eq ci cd (LDisk sl) kvs Hs Hp). unfold open_reader.
      unfold ifile at 1. rewrite (parse_file_hdr_ok (ctype ci) _ ci_type).
      rewrite (parse_dfile cd cd_type kvs). fold f. fold bloom. fold rdr.
      rewrite t_all, (validate_good _ _ _ t_good). reflexivity.
    Qed.

    Lemma t_behaves : behaves_as_sorted_map rdr kvs.
    Proof.
      pose proof t_good as HG.
      split; [|split; [|split; [|split; [|split]]]].
      - intros k. apply (contains_ok _ _ kvs k HG (t_get k)).
        intros kv Hin. apply (bloom_in ci cd kvs Hs kv Hin).
      - intros k. apply (get_ok _ _ kvs k HG (t_get k)).
      - apply (scan_ok cd cd_ok cd_type rdr kvs eq_refl eq_refl (pairs_ok_size ci cd kvs Hp) t_all).
      - intros a. apply (from_ok _ _ kvs a HG (t_from a)).
      - intros a b Hab. apply (range_ok _ _ kvs a b HG). rewrite t_between.
        rewrite (disk_between_ok ci sl f recs t_seek t_dec t_os t_ks t_bound a b Hab), t_entries.
        destruct (bcmp a b); [reflexivity|reflexivity|congruence].
      - intros a b Hab. apply range_rejected. rewrite t_between, Hab. reflexivity.
    Qed.
  End Table.

  Theorem table_is_sorted_map_disk (sl : N) (kvs : tpairs) :
    4 <= sl ->
    psorted kvs -> Forall (pair_ok ci cd) kvs -> Forall val_ok kvs -> file_ok cd kvs ->
    no_embedded kvs ->
    exists r, open_table (LDisk sl) (write_table ci cd kvs) ci cd = Ok r /\ behaves_as_sorted_map r kvs.
  Proof.
    intros Hsl Hs Hp Hv Hf Hne. eexists. split.
    - exact (t_open sl kvs Hsl Hs Hp Hv Hf Hne).
    - exact (t_behaves sl kvs Hsl Hs Hp Hv Hf Hne).
  Qed.
End Facts.

Example disk_example :
  let kvs : tpairs := [([], Some [1]); ([0x61], None); ([0x61; 0], Some []); ([0x7a; 0x7a; 0x91], Some [0x91; 0x8d; 0x4c; 0])] in
  match open_table (LDisk 4) (write_table id_codec id_codec kvs) id_codec id_codec with
  | Ok r => rd_scan r = (kvs, None)
            /\ rd_get r [0x61] = Ok None /\ rd_get r [0x62] = Err NotFound /\ rd_get r [] = Ok (Some [1])
            /\ rd_scan_range r [] [0x60] = Some ([([], Some [1])], None)
            /\ rd_scan_range r [0x62] [0x63] = Some ([], None)
  | Err _ => False
  end.
Proof. vm_compute. repeat split; reflexivity. Qed.

(* F-C03d: without [no_embedded] the disk-index theorem is false.  Witness: uncompressed index and
   data files, the four pairs "a" -> 01, ("b" ++ IMAGE') -> 02, "c" -> 03, "d" -> 04, where IMAGE' is
   the complete record image, as it stands in an index file, of the index entry (key "zzzz",
   value offset 8, checksum 0).  The index file then has an acceptable position (48) inside the key of
   its second record; the table opens (offset 8 is a valid data record and checksum 0 is not
   verified), but the key "c" is reported absent, Get "c" fails with NotFound, and the full scan
   delivers the unwritten key "zzzz" and ends with an error. *)
Definition emb_zkey : bytes := [0x7a; 0x7a; 0x7a; 0x7a].                       (* "zzzz" *)
Definition emb_image' : bytes := ienc id_codec (emb_zkey, 8, 0).
Definition emb_bkey : bytes := [0x62] ++ emb_image'.                           (* "b" ++ IMAGE' *)
Definition emb_kvs : tpairs :=
  [([0x61], Some [1]); (emb_bkey, Some [2]); ([0x63], Some [3]); ([0x64], Some [4])].

Example emb_image'_bytes :
  emb_image' = [0x91; 0x8d; 0x4c; 0; 8; 0; 0xe0; 0xa3; 0xed; 0xe2; 0x0a;
                0x0a; 4; 0x7a; 0x7a; 0x7a; 0x7a; 0x10; 8].
Proof. vm_compute. reflexivity. Qed.

(* the index file has one acceptable position more than it has records *)
Example emb_index_positions :
  starts id_codec (index_recs id_codec emb_kvs) 8 = [8; 34; 79; 105]
  /\ lenN (tf_index (write_table id_codec id_codec emb_kvs)) = 131
  /\ filter (acceptable id_codec (tf_index (write_table id_codec id_codec emb_kvs))) (map N.of_nat (seq 0 132))
     = [8; 34; 48; 79; 105].
Proof. vm_compute. repeat split; reflexivity. Qed.

(* the concrete wrong answers, for the scan windows 4, 16 and 4096 *)
Example disk_index_embedded_answers :
  Forall (fun sl =>
    match open_table (LDisk sl) (write_table id_codec id_codec emb_kvs) id_codec id_codec with
    | Ok r =>
        rd_contains r [0x63] = Ok false /\ rd_get r [0x63] = Err NotFound
        /\ rd_contains r [0x61] = Ok true /\ rd_contains r emb_bkey = Ok true /\ rd_contains r [0x64] = Ok true
        /\ rd_contains r emb_zkey = Ok false
        /\ rd_scan r = ([([0x61], Some [1]); (emb_bkey, Some [2]); (emb_zkey, Some [3]); ([0x63], Some [4])], Some EOF)
    | Err _ => False
    end) [4; 16; 4096].
Proof.
  apply Forall_cons; [vm_compute; repeat split; reflexivity|].
  apply Forall_cons; [vm_compute; repeat split; reflexivity|].
  apply Forall_cons; [vm_compute; repeat split; reflexivity|].
  apply Forall_nil.
Qed.

Theorem disk_index_embedded_refuted :
  exists (ci cd : codec) (sl : N) (kvs : tpairs),
    (forall x, decomp ci (comp ci x) = Ok x) /\ (forall x, decomp cd (comp cd x) = Ok x)
    /\ ctype ci <= 3 /\ ctype cd <= 3
    /\ 4 <= sl
    /\ psorted kvs /\ Forall (pair_ok ci cd) kvs /\ Forall val_ok kvs /\ file_ok cd kvs
    /\ ~ no_embedded ci cd kvs
    /\ (exists r, open_table (LDisk sl) (write_table ci cd kvs) ci cd = Ok r)
    /\ (forall r, open_table (LDisk sl) (write_table ci cd kvs) ci cd = Ok r -> ~ behaves_as_sorted_map r kvs).
Proof.
  exists id_codec, id_codec, 4, emb_kvs.
  split; [intros x; reflexivity|]. split; [intros x; reflexivity|].
  split; [vm_compute; discriminate|]. split; [vm_compute; discriminate|].
  split; [vm_compute; discriminate|].
  split.
  { unfold psorted, emb_kvs.
    repeat (apply SSorted_cons || apply SSorted_nil || apply Forall_cons || apply Forall_nil);
      vm_compute; reflexivity. }
  split.
  { assert (Hk : forall kv, lenN (fst kv) <= 20 -> lenN (payload_of (snd kv)) <= 1 -> pair_ok id_codec id_codec kv).
    { intros kv Hk Hv. unfold pair_ok. cbn [comp id_codec].
      split; [|split; [|split]].
      - apply N.le_lt_trans with (1 := Hk). vm_compute. reflexivity.
      - apply N.le_lt_trans with (1 := Hv). vm_compute. reflexivity.
      - apply N.le_lt_trans with (1 := Hv). vm_compute. reflexivity.
      - intros off crc _ _. pose proof (pb_index_entry_len (fst kv) off crc) as Hl.
        apply N.le_lt_trans with (1 := Hl).
        apply N.le_lt_trans with (m := 20 + 60); [apply N.add_le_mono_r; exact Hk|].
        vm_compute. reflexivity. }
    unfold emb_kvs. repeat (apply Forall_cons || apply Forall_nil); apply Hk; vm_compute; discriminate. }
  split.
  { unfold emb_kvs, val_ok. cbn [snd payload_of].
    repeat (apply Forall_cons || apply Forall_nil); vm_compute; reflexivity. }
  split; [vm_compute; reflexivity|].
  split.
  { intros Hne. specialize (Hne 48).
    assert (Ha : acceptable id_codec (tf_index (write_table id_codec id_codec emb_kvs)) 48 = true)
      by (vm_compute; reflexivity).
    apply Hne in Ha.
    replace (starts id_codec (index_recs id_codec emb_kvs) 8) with [8; 34; 79; 105] in Ha
      by (vm_compute; reflexivity).
    destruct Ha as [H|[H|[H|[H|[]]]]]; discriminate H. }
  assert (E : match open_table (LDisk 4) (write_table id_codec id_codec emb_kvs) id_codec id_codec with
              | Ok r => rd_contains r [0x63]
              | Err e => Err e
              end = Ok false) by (vm_compute; reflexivity).
  split.
  { destruct (open_table (LDisk 4) (write_table id_codec id_codec emb_kvs) id_codec id_codec) as [r|e];
      [exists r; reflexivity | discriminate E]. }
  intros r Hopen [Hc _]. rewrite Hopen in E.
  specialize (Hc [0x63]). rewrite E in Hc.
  assert (Hs : spec_contains emb_kvs [0x63] = true) by (vm_compute; reflexivity).
  rewrite Hs in Hc. discriminate Hc.
Qed.

Print Assumptions table_is_sorted_map_disk.
Print Assumptions disk_example.
Print Assumptions disk_index_embedded_refuted.
