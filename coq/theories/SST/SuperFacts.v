(* C08, stacked reader: newest-first point reads equal the latest-wins union, given readers that
   answer like their tables (C03 provides that for written tables). *)
From GoSST Require Import Base.Bytes Base.Order Struct.Heap SST.TableReader SST.Merge SST.MergeFacts SST.Super.
From Coq Require Import Lia Sorting.Sorted.
Local Open Scope N_scope.

Definition tget_res (t : table) (k : bytes) : res (option bytes) :=
  match t_get k t with Some v => Ok v | None => Err NotFound end.

Lemma Forall2_rev {A B} (P : A -> B -> Prop) l1 l2 : Forall2 P l1 l2 -> Forall2 P (rev l1) (rev l2).
Proof.
  induction 1 as [|a b l1 l2 H H2 IH]; cbn [rev]; [constructor|].
  apply Forall2_app; [exact IH|constructor; [exact H|constructor]].
Qed.

Lemma super_get_rev_spec rs ts k :
  Forall2 (fun r t => rd_get r k = tget_res t k) rs ts ->
  super_get_rev rs k = match newest_value k ts with Some v => Ok v | None => Err NotFound end.
Proof.
  induction 1 as [|r t rs ts H H2 IH]; cbn [super_get_rev newest_value]; [reflexivity|].
  rewrite H. unfold tget_res. destruct (t_get k t) as [v|]; [reflexivity|exact IH].
Qed.

(* Get through the stacked reader = value of the newest table containing the key = the union's value *)
Theorem super_get_spec rs (tables : list table) k :
  Forall tsorted tables ->
  Forall2 (fun r t => rd_get r k = tget_res t k) rs tables ->
  super_get rs k = tget_res (union_latest tables) k.
Proof.
  intros Hs H. unfold super_get, tget_res.
  rewrite (super_get_rev_spec (rev rs) (rev tables) k (Forall2_rev _ _ _ H)).
  rewrite union_latest_get by exact Hs. reflexivity.
Qed.

Lemma super_contains_rev_spec rs ts k :
  Forall2 (fun r t => rd_contains r k = Ok (match t_get k t with Some _ => true | None => false end)) rs ts ->
  super_contains_rev rs k = Ok (match newest_value k ts with Some _ => true | None => false end).
Proof.
  induction 1 as [|r t rs ts H H2 IH]; cbn [super_contains_rev newest_value]; [reflexivity|].
  rewrite H. destruct (t_get k t) as [v|]; [reflexivity|exact IH].
Qed.

Theorem super_contains_spec rs (tables : list table) k :
  Forall tsorted tables ->
  Forall2 (fun r t => rd_contains r k = Ok (match t_get k t with Some _ => true | None => false end)) rs tables ->
  super_contains rs k = Ok (match t_get k (union_latest tables) with Some _ => true | None => false end).
Proof.
  intros Hs H. unfold super_contains.
  rewrite (super_contains_rev_spec (rev rs) (rev tables) k (Forall2_rev _ _ _ H)).
  rewrite union_latest_get by exact Hs. reflexivity.
Qed.

(* full scan through the stacked reader = live part of the union, when each reader scans as its table *)
Theorem super_scan_spec rs (tables : list table) :
  Forall tsorted tables ->
  Forall2 (fun r t => rd_scan r = (t, None)) rs tables ->
  super_scan rs = (live (union_latest tables), None).
Proof.
  intros Hs H. unfold super_scan.
  assert (E : map (fun r => to_stream (rd_scan r)) rs = map as_stream tables).
  { clear Hs. induction H as [|r t rs ts Hr H2 IH]; cbn [map]; [reflexivity|].
    rewrite Hr, IH. unfold to_stream, as_stream. simpl fst. simpl snd. cbv iota. rewrite app_nil_r. reflexivity. }
  rewrite E. apply merge_compact_latest_wins. exact Hs.
Qed.

Print Assumptions super_get_spec.
Print Assumptions super_scan_spec.
