(* SSTableStreamWriter (sstables/sstable_writer.go): WriteNext with the ascending-key check,
   data append, index append with rewind on failure, metadata bookkeeping; Close.
   I/O failures of the data / index append are injected by a fault flag per call (C11, C15). *)
From GoSST Require Import Base.Bytes Base.Crc Base.ProtoWire RecordIO.Format RecordIO.Writer.
Local Open Scope N_scope.

Definition payload_of (v : option bytes) : bytes := match v with Some p => p | None => [] end.

Record tw := mkTW {
  tw_ci : codec; tw_cd : codec;          (* index / data compression *)
  tw_idx : wstate; tw_data : wstate;
  tw_last : option bytes;                (* lastKey: None until a write succeeded *)
  tw_min : option bytes;
  tw_num : N; tw_nulls : N;
  tw_bloom : list bytes                  (* keys added to the bloom filter *)
}.

Definition tw_open (ci cd : codec) : tw := mkTW ci cd (w_open ci) (w_open cd) None None 0 0 [].

Inductive tw_fault := NoFault | FailData | FailIndex.

Definition tw_write_next (fault : tw_fault) (key : bytes) (value : option bytes) (s : tw) : tw * res unit :=
  let rejected :=
    match tw_last s with
    | Some l => match bcmp l key with Lt => false | _ => true end
    | None => false
    end in
  if rejected then (s, Err Rejected)
  else
    let bloom' := key :: tw_bloom s in
    let with_bloom := mkTW (tw_ci s) (tw_cd s) (tw_idx s) (tw_data s) (tw_last s) (tw_min s) (tw_num s) (tw_nulls s) bloom' in
    match fault with
    | FailData => (with_bloom, Err Other)
    | _ =>
        let crc := crc64iso (payload_of value) in
        let pre := w_size (tw_data s) in
        let '(data', off) := w_write (tw_cd s) value (tw_data s) in
        match fault with
        | FailIndex =>
            let data'' := match w_seek pre data' with Ok d => d | Err _ => data' end in
            (mkTW (tw_ci s) (tw_cd s) (tw_idx s) data'' (tw_last s) (tw_min s) (tw_num s) (tw_nulls s) bloom', Err Other)
        | _ =>
            let '(idx', _) := w_write (tw_ci s) (Some (pb_index_entry key off crc)) (tw_idx s) in
            (mkTW (tw_ci s) (tw_cd s) idx' data' (Some key)
                  (match tw_min s with Some m => Some m | None => Some key end)
                  (tw_num s + 1)
                  (match value with None => tw_nulls s + 1 | Some _ => tw_nulls s end)
                  bloom', Ok tt)
        end
    end.

Record table_files := mkTF {
  tf_index : bytes; tf_data : bytes;
  tf_num : N; tf_nulls : N; tf_min : option bytes; tf_max : option bytes;
  tf_data_bytes : N; tf_index_bytes : N;
  tf_bloom : list bytes
}.

Definition tw_close (s : tw) : table_files :=
  mkTF (w_close (tw_idx s)) (w_close (tw_data s)) (tw_num s) (tw_nulls s) (tw_min s) (tw_last s)
       (w_size (tw_data s)) (w_size (tw_idx s)) (tw_bloom s).

(* run a sequence of calls *)
Fixpoint tw_run (calls : list (tw_fault * bytes * option bytes)) (s : tw) : tw * list (res unit) :=
  match calls with
  | [] => (s, [])
  | (f, k, v) :: rest =>
      let '(s', r) := tw_write_next f k v s in
      let '(s'', rs) := tw_run rest s' in (s'', r :: rs)
  end.

Definition write_table (ci cd : codec) (kvs : list (bytes * option bytes)) : table_files :=
  tw_close (fst (tw_run (map (fun kv => (NoFault, fst kv, snd kv)) kvs) (tw_open ci cd))).
