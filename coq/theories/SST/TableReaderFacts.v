(* C03: a table written from strictly ascending pairs answers Contains / Get / Scan /
   ScanStartingAt / ScanRange exactly like the sorted map of those pairs - for the slice,
   skip-list and (fixed-width) map loaders, every pair of codecs, every bloom filter without
   false negatives. (Disk loader: SST/DiskIndexFacts.v.) *)
From GoSST Require Import Base.Bytes Base.Order Base.Varint Base.Crc Base.CrcFacts Base.ProtoWire Base.ProtoWireFacts.
From GoSST Require Import Struct.SkipList Struct.SkipListFacts.
From GoSST Require Import RecordIO.Format RecordIO.FormatFacts RecordIO.Writer RecordIO.SeqReader RecordIO.MmapReader RecordIO.WriteReadFacts.
From GoSST Require Import SST.TableWriter SST.TableWriterFacts SST.Index SST.IndexFacts SST.TableReader.
From Coq Require Import Lia Sorting.Sorted.
Local Open Scope N_scope.

Definition tpairs := list (bytes * option bytes).
Definition psorted (kvs : tpairs) : Prop := StronglySorted (fun a b => bcmp (fst a) (fst b) = Lt) kvs.

Fixpoint p_get (k : bytes) (l : tpairs) : option (option bytes) :=
  match l with
  | [] => None
  | (k', v) :: r => if beqb k k' then Some v else p_get k r
  end.

(* the sorted-map answers *)
Definition spec_contains (kvs : tpairs) (k : bytes) : bool := match p_get k kvs with Some _ => true | None => false end.
Definition spec_get (kvs : tpairs) (k : bytes) : res (option bytes) :=
  match p_get k kvs with Some v => Ok v | None => Err NotFound end.
Definition spec_from (kvs : tpairs) (a : bytes) : tpairs := filter (fun kv => negb (bltb (fst kv) a)) kvs.
Definition spec_range (kvs : tpairs) (a b : bytes) : tpairs := filter (fun kv => bleb a (fst kv) && bleb (fst kv) b) kvs.

Definition behaves_as_sorted_map (r : reader) (kvs : tpairs) : Prop :=
  (forall k, rd_contains r k = Ok (spec_contains kvs k))
  /\ (forall k, rd_get r k = spec_get kvs k)
  /\ rd_scan r = (kvs, None)
  /\ (forall a, rd_scan_from r a = (spec_from kvs a, None))
  /\ (forall a b, bcmp a b <> Gt -> rd_scan_range r a b = Some (spec_range kvs a b, None))
  /\ (forall a b, bcmp a b = Gt -> rd_scan_range r a b = None).

(* values are byte strings (keys need no such restriction) *)
Definition val_ok (kv : bytes * option bytes) : Prop := Forall (fun b => b < 256) (payload_of (snd kv)).

(* ------------------------------------------------------------------ generic helpers *)
Lemma crc64iso_lt bs : Forall (fun x => x < 256) bs -> crc64iso bs < 2 ^ 64.
Proof.
  intros Hb. unfold crc64iso.
  apply (fits_lxor 64); [lia| |vm_compute; reflexivity].
  apply crc_raw_fits; try assumption; try (vm_compute; reflexivity). lia.
Qed.

Lemma pb_bytes_field_len k : (length (pb_bytes_field 1 k) <= length k + 20)%nat.
Proof.
  unfold pb_bytes_field. destruct k as [|x k]; [cbn [length]; lia|].
  rewrite !app_length.
  pose proof (uv_enc_len (1 * 8 + 2)). pose proof (uv_enc_len (N.of_nat (length (x :: k)))). lia.
Qed.

Lemma pb_varint_field_len n v : (length (pb_varint_field n v) <= 20)%nat.
Proof.
  unfold pb_varint_field. destruct (v =? 0); [cbn [length]; lia|].
  rewrite app_length. pose proof (uv_enc_len (n * 8)). pose proof (uv_enc_len v). lia.
Qed.

Lemma pb_index_entry_len k off crc : lenN (pb_index_entry k off crc) <= lenN k + 60.
Proof.
  unfold pb_index_entry, lenN. rewrite !app_length.
  pose proof (pb_bytes_field_len k). pose proof (pb_varint_field_len 2 off).
  pose proof (pb_varint_field_len 3 crc). lia.
Qed.

Lemma beqb_sym a b : beqb a b = beqb b a.
Proof. unfold beqb. rewrite (bcmp_antisym a b). destruct (bcmp a b); reflexivity. Qed.

Lemma p_get_in k v kvs : p_get k kvs = Some v -> In (k, v) kvs.
Proof.
  induction kvs as [|[k' v'] rest IH]; [discriminate|]. cbn [p_get].
  unfold beqb. destruct (bcmp k k') eqn:E; try (intros H; right; apply IH; exact H).
  intros H. injection H as ->. apply bcmp_eq in E. subst k'. left. reflexivity.
Qed.

Lemma Forall2_filter {A B} (R : A -> B -> Prop) (p : A -> bool) (q : B -> bool) l1 l2 :
  (forall a b, R a b -> p a = q b) -> Forall2 R l1 l2 -> Forall2 R (filter p l1) (filter q l2).
Proof.
  intros Hpq. induction 1 as [|a b l1 l2 Hab _ IH]; [constructor|].
  cbn [filter]. rewrite (Hpq a b Hab). destruct (q b); [constructor; assumption|exact IH].
Qed.

(* ---- the skip-list view of an entry list *)
Lemma sl_sorted es : esorted es -> sorted bcmp (sl_of es).
Proof.
  induction es as [|e es IH]; intros Hs; [constructor|].
  apply StronglySorted_inv in Hs. destruct Hs as [Hs' Hh].
  cbn [sl_of map]. constructor; [apply IH; exact Hs'|].
  apply Forall_map. exact Hh.
Qed.

Lemma sl_heights es : heights_ok (sl_of es).
Proof. unfold heights_ok, sl_of. apply Forall_map. apply Forall_forall. intros e _. cbn [th]. lia. Qed.

Lemma assoc_find key es :
  assoc bcmp key (kvs (sl_of es)) = option_map ival (find (fun e => beqb (ikey e) key) es).
Proof.
  induction es as [|e es IH]; [reflexivity|].
  cbn [sl_of map kvs assoc find tkey tval]. unfold beqb.
  rewrite (bcmp_antisym key (ikey e)).
  destruct (bcmp key (ikey e)); cbn [CompOpp option_map]; try reflexivity; exact IH.
Qed.

Lemma of_kvs_filter (f : bytes -> bool) es :
  of_kvs (filter (fun kv => f (fst kv)) (kvs (sl_of es))) = filter (fun e => f (ikey e)) es.
Proof.
  induction es as [|e es IH]; [reflexivity|].
  cbn [sl_of map kvs filter tkey tval fst]. fold (sl_of es). fold (kvs (sl_of es)).
  destruct (f (ikey e)); [|exact IH].
  cbn [of_kvs map]. fold (of_kvs (filter (fun kv => f (fst kv)) (kvs (sl_of es)))). rewrite IH.
  destruct e as [[k o] c]. reflexivity.
Qed.

Lemma sl_filter_from a es :
  of_kvs (filter (ge_key bcmp a) (kvs (sl_of es))) = filter (fun e => negb (bltb (ikey e) a)) es.
Proof.
  rewrite <- (of_kvs_filter (fun x => negb (bltb x a))). f_equal. apply filter_ext.
  intros kv. unfold ge_key, bltb. destruct (bcmp (fst kv) a); reflexivity.
Qed.

Lemma sl_filter_between a b es :
  of_kvs (filter (fun kv => ge_key bcmp a kv && le_key bcmp b kv) (kvs (sl_of es)))
  = filter (fun e => bleb a (ikey e) && bleb (ikey e) b) es.
Proof.
  rewrite <- (of_kvs_filter (fun x => bleb a x && bleb x b)). f_equal. apply filter_ext.
  intros kv. unfold ge_key, le_key, bleb. rewrite (bcmp_antisym (fst kv) a).
  destruct (bcmp (fst kv) a); destruct (bcmp (fst kv) b); reflexivity.
Qed.

Section Facts.
  Variables ci cd : codec.
  Hypothesis ci_ok : forall x, decomp ci (comp ci x) = Ok x.
  Hypothesis cd_ok : forall x, decomp cd (comp cd x) = Ok x.
  Hypothesis ci_type : ctype ci <= 3.
  Hypothesis cd_type : ctype cd <= 3.

  (* sizes are uint64 in the code *)
  Definition pair_ok (kv : bytes * option bytes) : Prop :=
    lenN (fst kv) < 2 ^ 32
    /\ lenN (payload_of (snd kv)) < 2 ^ 64 /\ lenN (comp cd (payload_of (snd kv))) < 2 ^ 64
    /\ (forall off crc, off < 2 ^ 64 -> crc < 2 ^ 64 -> lenN (comp ci (pb_index_entry (fst kv) off crc)) < 2 ^ 64).
  (* the data file stays below 2^64 bytes *)
  Definition file_ok (kvs : tpairs) : Prop :=
    8 + lenN (flat_map (fun kv => enc_rec cd (snd kv)) kvs) < 2 ^ 64.

  (* ================================================================== helpers *)

  (* ---- step 1: strictly ascending input is accepted completely *)
  Definition calls_of (kvs : tpairs) : list call := map (fun kv => (NoFault, fst kv, snd kv)) kvs.

  Lemma spec_run_all kvs : forall last, psorted kvs -> Forall (above last) kvs ->
    snd (spec_run (calls_of kvs) last) = kvs.
  Proof.
    induction kvs as [|[k v] rest IH]; intros last Hs Ha; [reflexivity|].
    unfold calls_of. cbn [map fst snd]. rewrite spec_run_cons.
    apply StronglySorted_inv in Hs. destruct Hs as [Hs' Hh].
    pose proof (Forall_inv Ha) as Hk.
    assert (Hts : too_small last k = false).
    { unfold too_small. destruct last as [l|]; [|reflexivity]. cbn in Hk. rewrite Hk. reflexivity. }
    rewrite Hts. cbn [snd]. f_equal. apply (IH (Some k)); [exact Hs'|exact Hh].
  Qed.

  Lemma accepted_all kvs : psorted kvs -> accepted (calls_of kvs) = kvs.
  Proof.
    intros Hs. unfold accepted. apply spec_run_all; [exact Hs|].
    apply Forall_forall. intros x _. exact I.
  Qed.

  (* ---- step 2: the two files *)
  Definition dfile (kvs : tpairs) : bytes :=
    file_hdr (ctype cd) ++ flat_map (fun kv => enc_rec cd (snd kv)) kvs.
  Definition ifile (kvs : tpairs) : bytes :=
    file_hdr (ctype ci) ++ flat_map (ienc ci) (entries_of cd kvs 8).

  Lemma pair_ok_size kv : pair_ok kv -> size_ok cd (snd kv).
  Proof. intros (_ & Hp & Hc & _). exact (conj Hp Hc). Qed.

  Lemma pairs_ok_size kvs : Forall pair_ok kvs -> Forall (fun kv => size_ok cd (snd kv)) kvs.
  Proof. apply Forall_impl. exact pair_ok_size. Qed.

  Lemma table_files kvs : psorted kvs -> Forall pair_ok kvs ->
    tf_data (write_table ci cd kvs) = dfile kvs /\ tf_index (write_table ci cd kvs) = ifile kvs.
  Proof.
    intros Hs Hp. unfold write_table. fold (calls_of kvs).
    assert (Hc : calls_ok cd (calls_of kvs)).
    { unfold calls_ok, calls_of. apply Forall_map. eapply Forall_impl; [|exact Hp].
      intros kv (_ & Ha & Hb & _). exact (conj Ha Hb). }
    pose proof (writer_accepts_exactly ci cd (calls_of kvs) Hc) as H. cbv zeta in H.
    rewrite (accepted_all kvs Hs) in H. exact H.
  Qed.

  (* ---- step 3: every index entry round-trips *)
  Definition eok (e : ientry) : Prop :=
    size_ok ci (Some (pb_index_entry (fst (fst e)) (snd (fst e)) (snd e)))
    /\ pb_dec_index_entry (pb_index_entry (fst (fst e)) (snd (fst e)) (snd e)) = Ok e.

  Lemma entries_ok kvs : forall off, Forall pair_ok kvs -> Forall val_ok kvs ->
    off + lenN (flat_map (fun kv => enc_rec cd (snd kv)) kvs) < 2 ^ 64 ->
    Forall eok (entries_of cd kvs off).
  Proof.
    induction kvs as [|[k v] rest IH]; intros off Hp Hv Hb; [constructor|].
    cbn [entries_of flat_map snd] in *. rewrite lenN_app in Hb.
    pose proof (Forall_inv Hp) as (Hk & _ & _ & Hi). pose proof (Forall_inv Hv) as Hvv.
    cbn [fst snd] in Hk, Hi. unfold val_ok in Hvv. cbn [snd] in Hvv.
    pose proof (crc64iso_lt _ Hvv) as Hcrc.
    assert (Hoff : off < 2 ^ 64) by lia.
    constructor.
    - split; cbn [fst snd].
      + split; cbn [payload]; [|apply Hi; assumption].
        pose proof (pb_index_entry_len k off (crc64iso (payload_of v))). lia.
      + apply pb_index_entry_roundtrip; try assumption. unfold lenN in Hk. lia.
    - apply IH; [exact (Forall_inv_tail Hp)|exact (Forall_inv_tail Hv)|lia].
  Qed.

  (* ---- step 4: the sequential index load *)
  Lemma load_entries_concat es : forall fuel pre, Forall eok es -> (length es < fuel)%nat ->
    load_entries fuel ci (pre ++ flat_map (ienc ci) es) (lenN pre) = Ok es.
  Proof.
    induction es as [|e es IH]; intros fuel pre HF HL; (destruct fuel as [|fuel]; [cbn [length] in HL; lia|]).
    - cbn [flat_map load_entries]. rewrite app_nil_r, read_next_end. reflexivity.
    - pose proof (Forall_inv HF) as [Hs Hd]. pose proof (Forall_inv_tail HF) as HF'.
      cbn [flat_map load_entries]. unfold ienc at 1.
      rewrite (read_next_one ci ci_ok ci_type) by exact Hs. cbv beta iota.
      rewrite Hd. rewrite <- lenN_app, app_assoc.
      rewrite IH; [reflexivity|exact HF'|cbn [length] in HL; lia].
  Qed.

  Lemma entries_len es : (length es <= length (flat_map (ienc ci) es))%nat.
  Proof.
    induction es as [|e es IH]; cbn [flat_map length]; [lia|]. rewrite app_length.
    pose proof (enc_rec_pos ci ci_type (Some (pb_index_entry (fst (fst e)) (snd (fst e)) (snd e)))) as Hp.
    unfold ienc at 1. unfold lenN in Hp. lia.
  Qed.

  Lemma load_index_ok kvs : Forall pair_ok kvs -> Forall val_ok kvs -> file_ok kvs ->
    load_index ci (ifile kvs) = Ok (entries_of cd kvs 8).
  Proof.
    intros Hp Hv Hf. unfold load_index, r_open, ifile.
    rewrite parse_file_hdr_ok by exact ci_type.
    change file_header_size with (lenN (file_hdr (ctype ci))).
    apply load_entries_concat; [apply entries_ok; assumption|].
    rewrite app_length. pose proof (entries_len (entries_of cd kvs 8)). unfold ientry in *. lia.
  Qed.

  (* ---- step 5: each entry addresses its value *)
  Definition good (r : reader) (e : ientry) (kv : bytes * option bytes) : Prop :=
    ikey e = fst kv /\ snd e = crc64iso (payload_of (snd kv))
    /\ read_at (r_cd r) (r_data r) (snd (fst e)) = Ok (snd kv).

  Lemma good_value r e kv : good r e kv ->
    forall skip, get_value_at r (snd (fst e)) (snd e) skip = Ok (snd kv).
  Proof.
    intros (_ & Hc & Hr) skip. unfold get_value_at. rewrite Hr, Hc, N.eqb_refl.
    destruct skip; reflexivity.
  Qed.

  Lemma good_entries r : r_cd r = cd -> forall kvs pre,
    Forall (fun kv => size_ok cd (snd kv)) kvs ->
    r_data r = pre ++ flat_map (fun kv => enc_rec cd (snd kv)) kvs ->
    Forall2 (good r) (entries_of cd kvs (lenN pre)) kvs.
  Proof.
    intros Hcd. induction kvs as [|[k v] rest IH]; intros pre HF HD; [constructor|].
    pose proof (Forall_inv HF) as Hv. pose proof (Forall_inv_tail HF) as HF'.
    cbn [entries_of flat_map snd] in *.
    constructor.
    - split; [reflexivity|]. split; [reflexivity|]. cbn [fst snd]. rewrite Hcd, HD.
      apply (read_at_one cd cd_ok cd_type). exact Hv.
    - rewrite <- lenN_app. apply IH; [exact HF'|]. rewrite HD, app_assoc. reflexivity.
  Qed.

  Lemma scan_full_ok r : r_cd r = cd -> forall kvs pre,
    Forall (fun kv => size_ok cd (snd kv)) kvs ->
    r_data r = pre ++ flat_map (fun kv => enc_rec cd (snd kv)) kvs ->
    scan_full r (entries_of cd kvs (lenN pre)) (lenN pre) = (kvs, None).
  Proof.
    intros Hcd. induction kvs as [|[k v] rest IH]; intros pre HF HD; [reflexivity|].
    pose proof (Forall_inv HF) as Hv. pose proof (Forall_inv_tail HF) as HF'.
    cbn [entries_of flat_map snd] in *. cbn [scan_full]. rewrite Hcd, HD.
    rewrite (read_next_one cd cd_ok cd_type) by exact Hv. cbn [snd].
    rewrite N.eqb_refl. cbn [negb]. rewrite andb_false_r. cbn [andb].
    rewrite <- lenN_app. rewrite IH; [reflexivity|exact HF'|].
    rewrite HD, app_assoc. reflexivity.
  Qed.

  (* ---- step 6: consumers of the correspondence *)
  Lemma validate_good r es kvs : Forall2 (good r) es kvs -> validate_all r es = Ok tt.
  Proof.
    induction 1 as [|e kv es kvs Hg _ IH]; [reflexivity|].
    cbn [validate_all]. rewrite (good_value r e kv Hg). exact IH.
  Qed.

  Lemma scan_by_index_good r es kvs : Forall2 (good r) es kvs -> scan_by_index r es = (kvs, None).
  Proof.
    induction 1 as [|e kv es kvs Hg _ IH]; [reflexivity|].
    cbn [scan_by_index]. rewrite (good_value r e kv Hg), IH.
    destruct Hg as (Hk & _). rewrite Hk. destruct kv; reflexivity.
  Qed.

  Lemma find_good r es kvs k : Forall2 (good r) es kvs ->
    match find (fun e => beqb (ikey e) k) es with
    | Some e => exists v, p_get k kvs = Some v
                  /\ forall skip, get_value_at r (snd (fst e)) (snd e) skip = Ok v
    | None => p_get k kvs = None
    end.
  Proof.
    induction 1 as [|e kv es kvs Hg _ IH]; [reflexivity|].
    cbn [find]. destruct kv as [k' v]. cbn [p_get].
    pose proof Hg as (Hk & _). cbn [fst] in Hk. rewrite Hk, (beqb_sym k' k).
    destruct (beqb k k'); [|exact IH].
    exists v. split; [reflexivity|]. intros skip. apply (good_value r e (k', v) Hg).
  Qed.

  Lemma good_Forall_key r (P : bytes -> Prop) es kvs : Forall2 (good r) es kvs ->
    Forall (fun kv => P (fst kv)) kvs -> Forall (fun e => P (ikey e)) es.
  Proof.
    induction 1 as [|e kv es kvs Hg _ IH]; intros HF; [constructor|].
    constructor; [|apply IH; exact (Forall_inv_tail HF)].
    destruct Hg as (Hk & _). rewrite Hk. exact (Forall_inv HF).
  Qed.

  Lemma good_esorted r es kvs : Forall2 (good r) es kvs -> psorted kvs -> esorted es.
  Proof.
    induction 1 as [|e kv es kvs Hg HG IH]; intros Hs; [constructor|].
    apply StronglySorted_inv in Hs. destruct Hs as [Hs' Hh].
    constructor; [apply IH; exact Hs'|].
    destruct Hg as (Hk & _). rewrite Hk.
    apply (good_Forall_key r (fun x => bcmp (fst kv) x = Lt) es kvs HG Hh).
  Qed.

  Lemma good_filter r (f : bytes -> bool) es kvs : Forall2 (good r) es kvs ->
    Forall2 (good r) (filter (fun e => f (ikey e)) es) (filter (fun kv => f (fst kv)) kvs).
  Proof.
    apply Forall2_filter. intros e kv (Hk & _). rewrite Hk. reflexivity.
  Qed.

  (* ---- step 7: the operations, from what the index answers *)
  Lemma contains_ok r es kvs k : Forall2 (good r) es kvs ->
    idx_get r k = Ok (option_map ival (find (fun e => beqb (ikey e) k) es)) ->
    (forall kv, In kv kvs -> r_bloom r (fst kv) = true) ->
    rd_contains r k = Ok (spec_contains kvs k).
  Proof.
    intros HG Hget Hb. unfold rd_contains, spec_contains. rewrite Hget.
    pose proof (find_good r es kvs k HG) as Hf.
    destruct (r_bloom r k) eqn:Eb; cbn [negb].
    - destruct (find (fun e => beqb (ikey e) k) es) as [e|]; cbn [option_map].
      + destruct Hf as (v & Hp & _). rewrite Hp. reflexivity.
      + rewrite Hf. reflexivity.
    - destruct (p_get k kvs) as [v|] eqn:Ep; [|reflexivity].
      exfalso. apply p_get_in in Ep. pose proof (Hb _ Ep) as Hb'. cbn [fst] in Hb'. congruence.
  Qed.

  Lemma get_ok r es kvs k : Forall2 (good r) es kvs ->
    idx_get r k = Ok (option_map ival (find (fun e => beqb (ikey e) k) es)) ->
    rd_get r k = spec_get kvs k.
  Proof.
    intros HG Hget. unfold rd_get, spec_get. rewrite Hget.
    pose proof (find_good r es kvs k HG) as Hf.
    destruct (find (fun e => beqb (ikey e) k) es) as [e|]; cbn [option_map].
    - destruct Hf as (v & Hp & Hv). rewrite Hp. unfold ival. apply Hv.
    - rewrite Hf. reflexivity.
  Qed.

  Lemma parse_dfile kvs : parse_file_hdr (dfile kvs) = Ok (4, ctype cd).
  Proof. unfold dfile. apply parse_file_hdr_ok. exact cd_type. Qed.

  Lemma scan_ok r kvs : r_cd r = cd -> r_data r = dfile kvs ->
    Forall (fun kv => size_ok cd (snd kv)) kvs ->
    idx_all r = Ok (entries_of cd kvs 8) -> rd_scan r = (kvs, None).
  Proof.
    intros Hcd HD HS Hall. unfold rd_scan, r_open. rewrite Hall, HD, parse_dfile.
    pose proof (scan_full_ok r Hcd kvs (file_hdr (ctype cd)) HS HD) as H.
    change (lenN (file_hdr (ctype cd))) with 8 in H. exact H.
  Qed.

  Lemma from_ok r es kvs a : Forall2 (good r) es kvs ->
    idx_from r a = Ok (filter (fun e => negb (bltb (ikey e) a)) es) ->
    rd_scan_from r a = (spec_from kvs a, None).
  Proof.
    intros HG Hfrom. unfold rd_scan_from, spec_from. rewrite Hfrom.
    apply scan_by_index_good. apply (good_filter r (fun x => negb (bltb x a))). exact HG.
  Qed.

  Lemma range_ok r es kvs a b : Forall2 (good r) es kvs ->
    idx_between r a b = Ok (Some (filter (fun e => bleb a (ikey e) && bleb (ikey e) b) es)) ->
    rd_scan_range r a b = Some (spec_range kvs a b, None).
  Proof.
    intros HG Hbt. unfold rd_scan_range, spec_range. rewrite Hbt. f_equal.
    apply scan_by_index_good. apply (good_filter r (fun x => bleb a x && bleb x b)). exact HG.
  Qed.

  Lemma range_rejected r a b : idx_between r a b = Ok None -> rd_scan_range r a b = None.
  Proof. intros H. unfold rd_scan_range. rewrite H. reflexivity. Qed.

  (* ---- step 8: opening *)
  Definition mem_loader (ld : loader) : Prop := match ld with LDisk _ => False | _ => True end.

  Definition the_reader (ld : loader) (kvs : tpairs) (bloom : bytes -> bool) (chk : bool) : reader :=
    mkReader ld ci cd (ifile kvs) (entries_of cd kvs 8) (dfile kvs) bloom chk.

  Lemma the_reader_good ld kvs bloom chk : Forall pair_ok kvs ->
    Forall2 (good (the_reader ld kvs bloom chk)) (entries_of cd kvs 8) kvs.
  Proof.
    intros Hp.
    pose proof (good_entries (the_reader ld kvs bloom chk) eq_refl kvs (file_hdr (ctype cd))
                  (pairs_ok_size kvs Hp) eq_refl) as HG.
    change (lenN (file_hdr (ctype cd))) with 8 in HG. exact HG.
  Qed.

  Lemma open_ok ld kvs bloom chk : mem_loader ld ->
    Forall pair_ok kvs -> Forall val_ok kvs -> file_ok kvs ->
    open_reader ld ci cd (ifile kvs) (dfile kvs) bloom false chk = Ok (the_reader ld kvs bloom chk).
  Proof.
    intros Hld Hp Hv Hf.
    pose proof (the_reader_good ld kvs bloom chk Hp) as HG.
    pose proof (validate_good _ _ _ HG) as HV. unfold the_reader in *.
    destruct ld as [| |w|sl]; [| | |contradiction];
      (unfold open_reader; rewrite (load_index_ok kvs Hp Hv Hf), parse_dfile;
       cbn [idx_all r_loader r_entries]; rewrite HV; reflexivity).
  Qed.

  (* the operations that do not depend on how the index is searched *)
  Lemma common_ok ld kvs bloom chk : mem_loader ld -> Forall pair_ok kvs ->
    rd_scan (the_reader ld kvs bloom chk) = (kvs, None).
  Proof.
    intros Hld Hp. apply scan_ok; try reflexivity; [apply pairs_ok_size; exact Hp|].
    destruct ld; try contradiction; reflexivity.
  Qed.

  (* ---- step 9: what the three in-memory indexes answer *)
  Lemma slice_idx_from r es a : r_entries r = es -> esorted es ->
    (r_loader r = LSlice \/ exists w, r_loader r = LMap w) ->
    idx_from r a = Ok (filter (fun e => negb (bltb (ikey e) a)) es).
  Proof.
    intros He Hs Hl. unfold idx_from.
    destruct Hl as [-> | [w ->]]; rewrite He, (slice_from_spec es a Hs); reflexivity.
  Qed.

  Lemma slice_idx_between r es a b : r_entries r = es -> esorted es ->
    (r_loader r = LSlice \/ exists w, r_loader r = LMap w) -> bcmp a b <> Gt ->
    idx_between r a b = Ok (Some (filter (fun e => bleb a (ikey e) && bleb (ikey e) b) es)).
  Proof.
    intros He Hs Hl Hab. unfold idx_between.
    destruct Hl as [-> | [w ->]]; rewrite He, (slice_between_spec es a b Hs Hab); reflexivity.
  Qed.

  Lemma slice_idx_rejects r a b :
    (r_loader r = LSlice \/ exists w, r_loader r = LMap w) -> bcmp a b = Gt ->
    idx_between r a b = Ok None.
  Proof.
    intros Hl Hab. unfold idx_between.
    destruct Hl as [-> | [w ->]]; rewrite (slice_between_rejects _ a b Hab); reflexivity.
  Qed.

  (* the scans of a slice / map reader *)
  Lemma slice_scans ld kvs bloom chk :
    (ld = LSlice \/ exists w, ld = LMap w) -> psorted kvs -> Forall pair_ok kvs ->
    let r := the_reader ld kvs bloom chk in
    rd_scan r = (kvs, None)
    /\ (forall a, rd_scan_from r a = (spec_from kvs a, None))
    /\ (forall a b, bcmp a b <> Gt -> rd_scan_range r a b = Some (spec_range kvs a b, None))
    /\ (forall a b, bcmp a b = Gt -> rd_scan_range r a b = None).
  Proof.
    intros Hl Hs Hp r.
    pose proof (the_reader_good ld kvs bloom chk Hp) as HG. fold r in HG.
    pose proof (good_esorted _ _ _ HG Hs) as Hes.
    assert (Hl' : r_loader r = LSlice \/ exists w, r_loader r = LMap w) by exact Hl.
    split; [|split; [|split]].
    - apply common_ok; [|exact Hp]. destruct Hl as [-> | [w ->]]; exact I.
    - intros a. apply (from_ok r _ kvs a HG). apply slice_idx_from; [reflexivity|exact Hes|exact Hl'].
    - intros a b Hab. apply (range_ok r _ kvs a b HG).
      apply slice_idx_between; [reflexivity|exact Hes|exact Hl'|exact Hab].
    - intros a b Hab. apply range_rejected. apply slice_idx_rejects; [exact Hl'|exact Hab].
  Qed.

  (* the bloom filter of the written table holds every key *)
  Lemma bloom_in kvs : psorted kvs -> forall kv, In kv kvs ->
    existsb (bytes_eqb (fst kv)) (tf_bloom (write_table ci cd kvs)) = true.
  Proof.
    intros Hs kv Hin. apply existsb_exists. exists (fst kv). split.
    - unfold write_table. fold (calls_of kvs). apply bloom_has_accepted.
      rewrite (accepted_all kvs Hs). exact Hin.
    - rewrite bytes_eqb_beqb. unfold beqb. rewrite bcmp_refl. reflexivity.
  Qed.

  Lemma open_table_eq ld kvs : psorted kvs -> Forall pair_ok kvs ->
    open_table ld (write_table ci cd kvs) ci cd
    = open_reader ld ci cd (ifile kvs) (dfile kvs)
        (fun k => existsb (bytes_eqb k) (tf_bloom (write_table ci cd kvs))) false false.
  Proof.
    intros Hs Hp. unfold open_table. destruct (table_files kvs Hs Hp) as [-> ->]. reflexivity.
  Qed.

  (* ================================================================== main statements *)

  (* The statements as first written (without [Forall val_ok kvs]) are FALSE: [bytes] is [list N],
     and a "byte" >= 2^72 in a value drives crc64iso beyond 64 bits, so that the index entry's
     checksum varint does not round-trip and the index load fails with Overflow.  See
     [needs_byte_values] below (after the section) for the counterexample.  Original statement:

       Theorem table_is_sorted_map_slice (kvs : tpairs) :
         psorted kvs -> Forall pair_ok kvs -> file_ok kvs ->
         exists r, open_table LSlice (write_table ci cd kvs) ci cd = Ok r /\ behaves_as_sorted_map r kvs.

     (likewise for the skip-list loader, the map loader and bloom_false_positives_harmless).
     Corrected statements: the values are byte strings ([Forall val_ok kvs]); keys need no such
     restriction. *)

  (* opening with verify-on-load succeeds and the reader is the sorted map - slice loader (default) *)
  Theorem table_is_sorted_map_slice (kvs : tpairs) :
    psorted kvs -> Forall pair_ok kvs -> Forall val_ok kvs -> file_ok kvs ->
    exists r, open_table LSlice (write_table ci cd kvs) ci cd = Ok r /\ behaves_as_sorted_map r kvs.
  Proof.
    intros Hs Hp Hv Hf. rewrite (open_table_eq LSlice kvs Hs Hp).
    set (bloom := fun k => existsb (bytes_eqb k) (tf_bloom (write_table ci cd kvs))).
    exists (the_reader LSlice kvs bloom false).
    split; [apply open_ok; try assumption; exact I|].
    pose proof (the_reader_good LSlice kvs bloom false Hp) as HG.
    pose proof (good_esorted _ _ _ HG Hs) as Hes.
    assert (Hget : forall k, idx_get (the_reader LSlice kvs bloom false) k
                   = Ok (option_map ival (find (fun e => beqb (ikey e) k) (entries_of cd kvs 8)))).
    { intros k. unfold idx_get. cbn [the_reader r_loader r_entries].
      rewrite (slice_get_spec _ k Hes). reflexivity. }
    destruct (slice_scans LSlice kvs bloom false (or_introl eq_refl) Hs Hp) as (H3 & H4 & H5 & H6).
    split; [|split; [|split; [|split; [|split]]]]; try assumption.
    - intros k. apply (contains_ok _ _ kvs k HG (Hget k)). intros kv Hin. apply (bloom_in kvs Hs kv Hin).
    - intros k. apply (get_ok _ _ kvs k HG (Hget k)).
  Qed.

  Theorem table_is_sorted_map_skiplist (kvs : tpairs) :
    psorted kvs -> Forall pair_ok kvs -> Forall val_ok kvs -> file_ok kvs ->
    exists r, open_table LSkipList (write_table ci cd kvs) ci cd = Ok r /\ behaves_as_sorted_map r kvs.
  Proof.
    intros Hs Hp Hv Hf. rewrite (open_table_eq LSkipList kvs Hs Hp).
    set (bloom := fun k => existsb (bytes_eqb k) (tf_bloom (write_table ci cd kvs))).
    set (r := the_reader LSkipList kvs bloom false).
    exists r.
    split; [apply open_ok; try assumption; exact I|].
    pose proof (the_reader_good LSkipList kvs bloom false Hp) as HG. fold r in HG.
    pose proof (good_esorted _ _ _ HG Hs) as Hes.
    pose proof (sl_sorted _ Hes) as Hss. pose proof (sl_heights (entries_of cd kvs 8)) as Hsh.
    assert (Hget : forall k, idx_get r k
                   = Ok (option_map ival (find (fun e => beqb (ikey e) k) (entries_of cd kvs 8)))).
    { intros k. unfold idx_get. cbn [r the_reader r_loader r_entries].
      change (map (fun e : ientry => mkTower (ikey e) (ival e) 1) (entries_of cd kvs 8))
        with (sl_of (entries_of cd kvs 8)).
      rewrite (get_spec bcmp bcmp_laws k _ Hss Hsh), assoc_find. reflexivity. }
    split; [|split; [|split; [|split; [|split]]]].
    - intros k. apply (contains_ok _ _ kvs k HG (Hget k)). intros kv Hin. apply (bloom_in kvs Hs kv Hin).
    - intros k. apply (get_ok _ _ kvs k HG (Hget k)).
    - apply common_ok; [exact I|exact Hp].
    - intros a. apply (from_ok r _ kvs a HG). unfold idx_from. cbn [r the_reader r_loader r_entries].
      rewrite (scan_from_spec bcmp bcmp_laws a _ Hss Hsh), sl_filter_from. reflexivity.
    - intros a b Hab. apply (range_ok r _ kvs a b HG). unfold idx_between.
      cbn [r the_reader r_loader r_entries].
      rewrite (scan_between_spec bcmp bcmp_laws a b _ Hss Hsh Hab), sl_filter_between. reflexivity.
    - intros a b Hab. apply range_rejected. unfold idx_between. cbn [r the_reader r_loader r_entries].
      rewrite (scan_between_rejects bcmp a b _ Hab). reflexivity.
  Qed.

  (* map loader: for keys and probes of exactly the mapper width; Contains/Get restricted to such probes *)
  Theorem table_is_sorted_map_map (w : nat) (kvs : tpairs) :
    psorted kvs -> Forall pair_ok kvs -> Forall val_ok kvs -> file_ok kvs ->
    Forall (fun kv => length (fst kv) = w) kvs ->
    exists r, open_table (LMap w) (write_table ci cd kvs) ci cd = Ok r
      /\ (forall k, length k = w -> rd_contains r k = Ok (spec_contains kvs k))
      /\ (forall k, length k = w -> rd_get r k = spec_get kvs k)
      /\ rd_scan r = (kvs, None)
      /\ (forall a, rd_scan_from r a = (spec_from kvs a, None))
      /\ (forall a b, bcmp a b <> Gt -> rd_scan_range r a b = Some (spec_range kvs a b, None))
      /\ (forall a b, bcmp a b = Gt -> rd_scan_range r a b = None).
  Proof.
    intros Hs Hp Hv Hf Hw. rewrite (open_table_eq (LMap w) kvs Hs Hp).
    set (bloom := fun k => existsb (bytes_eqb k) (tf_bloom (write_table ci cd kvs))).
    exists (the_reader (LMap w) kvs bloom false).
    split; [apply open_ok; try assumption; exact I|].
    pose proof (the_reader_good (LMap w) kvs bloom false Hp) as HG.
    pose proof (good_esorted _ _ _ HG Hs) as Hes.
    pose proof (good_Forall_key _ (fun x => length x = w) _ _ HG Hw) as Hew.
    assert (Hget : forall k, length k = w -> idx_get (the_reader (LMap w) kvs bloom false) k
                   = Ok (option_map ival (find (fun e => beqb (ikey e) k) (entries_of cd kvs 8)))).
    { intros k Hk. unfold idx_get. cbn [the_reader r_loader r_entries].
      rewrite (map_get_fixed_width w _ k Hes Hew Hk). reflexivity. }
    destruct (slice_scans (LMap w) kvs bloom false (or_intror (ex_intro _ w eq_refl)) Hs Hp) as (H3 & H4 & H5 & H6).
    split; [|split; [|split; [|split; [|split]]]]; try assumption.
    - intros k Hk. apply (contains_ok _ _ kvs k HG (Hget k Hk)). intros kv Hin. apply (bloom_in kvs Hs kv Hin).
    - intros k Hk. apply (get_ok _ _ kvs k HG (Hget k Hk)).
  Qed.

  (* the bloom filter may answer anything for keys that were not added: results do not change *)
  Theorem bloom_false_positives_harmless (kvs : tpairs) (bloom : bytes -> bool) :
    psorted kvs -> Forall pair_ok kvs -> Forall val_ok kvs -> file_ok kvs ->
    (forall kv, In kv kvs -> bloom (fst kv) = true) ->
    let t := write_table ci cd kvs in
    exists r, open_reader LSlice ci cd (tf_index t) (tf_data t) bloom false false = Ok r
      /\ (forall k, rd_contains r k = Ok (spec_contains kvs k)).
  Proof.
    intros Hs Hp Hv Hf Hb t. subst t. destruct (table_files kvs Hs Hp) as [-> ->].
    exists (the_reader LSlice kvs bloom false).
    split; [apply open_ok; try assumption; exact I|].
    pose proof (the_reader_good LSlice kvs bloom false Hp) as HG.
    pose proof (good_esorted _ _ _ HG Hs) as Hes.
    intros k. apply (contains_ok _ _ kvs k HG); [|exact Hb].
    unfold idx_get. cbn [the_reader r_loader r_entries].
    rewrite (slice_get_spec _ k Hes). reflexivity.
  Qed.
End Facts.

Definition id_codec : codec := mkCodec 0 (fun x => x) (fun x => Ok x).

(* the counterexample to the statements without [val_ok]: a value holding a "byte" of 2^100 *)
Remark needs_byte_values :
  let kvs : tpairs := [([], Some [2 ^ 100])] in
  psorted kvs /\ Forall (pair_ok id_codec id_codec) kvs /\ file_ok id_codec kvs
  /\ ~ Forall val_ok kvs
  /\ 2 ^ 64 <= crc64iso [2 ^ 100]
  /\ open_table LSlice (write_table id_codec id_codec kvs) id_codec id_codec = Err Overflow.
Proof.
  cbv zeta. split; [repeat constructor|]. split.
  - constructor; [|constructor]. unfold pair_ok. cbn [fst snd payload_of comp id_codec].
    split; [vm_compute; reflexivity|]. split; [vm_compute; reflexivity|]. split; [vm_compute; reflexivity|].
    intros off crc _ _. pose proof (pb_index_entry_len [] off crc) as H. cbn [lenN length] in H.
    change (lenN []) with 0 in H. lia.
  - split; [vm_compute; reflexivity|]. split.
    + intros H. apply Forall_inv in H. unfold val_ok in H. cbn [snd payload_of] in H.
      apply Forall_inv in H. vm_compute in H. discriminate H.
    + split; [vm_compute; discriminate|vm_compute; reflexivity].
Qed.

Example table_example :
  let kvs : tpairs := [([], Some [1]); ([0x61], None); ([0x61; 0], Some []); ([0x91; 0x8d; 0x4c], Some [0x91; 0x8d; 0x4c; 0])] in
  match open_table LSlice (write_table id_codec id_codec kvs) id_codec id_codec with
  | Ok r => rd_scan r = (kvs, None)
            /\ rd_get r [0x61] = Ok None /\ rd_get r [0x62] = Err NotFound
            /\ rd_scan_range r [0x61] [0x61; 0] = Some ([([0x61], None); ([0x61; 0], Some [])], None)
  | Err _ => False
  end.
Proof. vm_compute. repeat split; reflexivity. Qed.

(* the example table satisfies the hypotheses of the theorems *)
Example table_example_hyps :
  let kvs : tpairs := [([], Some [1]); ([0x61], None); ([0x61; 0], Some []); ([0x91; 0x8d; 0x4c], Some [0x91; 0x8d; 0x4c; 0])] in
  psorted kvs /\ Forall val_ok kvs /\ file_ok id_codec kvs.
Proof.
  cbv zeta. split; [repeat constructor|]. split; [|vm_compute; reflexivity].
  unfold val_ok. repeat constructor.
Qed.

Print Assumptions table_is_sorted_map_slice.
Print Assumptions table_is_sorted_map_skiplist.
Print Assumptions table_is_sorted_map_map.
Print Assumptions bloom_false_positives_harmless.
Print Assumptions needs_byte_values.
Print Assumptions table_example.
