(* SuperSSTableReader: newest-first point reads, scans through the compacting merge. *)
From GoSST Require Import Base.Bytes Struct.Heap SST.TableReader SST.Merge.
Local Open Scope N_scope.

Fixpoint super_get_rev (rs : list reader) (key : bytes) : res (option bytes) :=
  match rs with
  | [] => Err NotFound
  | r :: rest =>
      match rd_get r key with
      | Err NotFound => super_get_rev rest key
      | x => x
      end
  end.
Definition super_get (rs : list reader) (key : bytes) : res (option bytes) := super_get_rev (rev rs) key.

Fixpoint super_contains_rev (rs : list reader) (key : bytes) : res bool :=
  match rs with
  | [] => Ok false
  | r :: rest =>
      match rd_contains r key with
      | Ok true => Ok true
      | Ok false => super_contains_rev rest key
      | Err e => Err e
      end
  end.
Definition super_contains (rs : list reader) (key : bytes) : res bool := super_contains_rev (rev rs) key.

Definition to_stream (sr : scan_res) : mstream :=
  map (fun kv => Ok kv) (fst sr) ++ match snd sr with Some e => [Err e] | None => [] end.

Definition super_scan (rs : list reader) : list (bytes * bytes) * option err :=
  scan_merged reduce_latest_wins (map (fun r => to_stream (rd_scan r)) rs).
Definition super_scan_from (rs : list reader) (key : bytes) : list (bytes * bytes) * option err :=
  scan_merged reduce_latest_wins (map (fun r => to_stream (rd_scan_from r key)) rs).
(* None = rejected *)
Definition super_scan_range (rs : list reader) (lo hi : bytes) : option (list (bytes * bytes) * option err) :=
  match bcmp lo hi with
  | Gt => None
  | _ => Some (scan_merged reduce_latest_wins
                 (map (fun r => match rd_scan_range r lo hi with Some sr => to_stream sr | None => [Err Rejected] end) rs))
  end.
