(* sstables/sstable_merger.go and super_sstable_reader.go: the merging heap adapter, Merge,
   the accumulating MergeCompactionIterator with its reductions, MergeCompact, and the stacked
   (newest-first) reader. *)
From GoSST Require Import Base.Bytes Struct.Heap.
Local Open Scope N_scope.

Definition mval := option bytes.
Definition mstream := @stream bytes mval.     (* items Ok (key, value) | Err e; running off the end = Done *)

Definition number {A} (l : list A) : list (N * A) :=
  (fix go (i : N) (l : list A) := match l with [] => [] | x :: r => (i, x) :: go (i + 1) r end) 0 l.

(* a table writer as seen by the merger: consumes pairs, may fail *)
Definition sink (St : Type) := St -> bytes -> mval -> St * res unit.

(* Merge: every heap output goes to the writer; first error aborts *)
Fixpoint merge_drain {St} (fuel : nat) (w : sink St) (h : @heap bytes mval) (s : St) : St * res unit :=
  match fuel with
  | O => (s, Err OutOfFuel)
  | S f =>
      match next bcmp h with
      | Err e => (s, Err e)
      | Ok (None, _) => (s, Ok tt)
      | Ok (Some (k, v, _), h') =>
          match w s k v with
          | (s', Ok _) => merge_drain f w h' s'
          | (s', Err e) => (s', Err e)
          end
      end
  end.

Definition merge {St} (w : sink St) (inputs : list mstream) (s : St) : St * res unit :=
  let its := number inputs in
  match init bcmp its with
  | Err e => (s, Err e)
  | Ok h => merge_drain (S (total_len its)) w h s
  end.

(* reductions *)
Definition reduce_fn := bytes -> list mval -> list N -> option (bytes * bytes).   (* None = (nil, nil) *)

(* ScanReduceLatestWins: value of the maximal context; first maximal index when all are 0 *)
Fixpoint max_ctx_index (ctxs : list N) (i : nat) (best : N) (besti : nat) : nat :=
  match ctxs with
  | [] => besti
  | x :: r => if best <? x then max_ctx_index r (S i) x i else max_ctx_index r (S i) best besti
  end.
Definition latest_value (vals : list mval) (ctxs : list N) : mval :=
  nth (max_ctx_index ctxs 0 0 0) vals None.

(* the iterator emits only when the reduced value is non-nil *)
Definition reduce_latest_wins : reduce_fn :=
  fun k vals ctxs => match latest_value vals ctxs with Some v => Some (k, v) | None => None end.
Definition reduce_latest_wins_skip_tombstones : reduce_fn :=
  fun k vals ctxs => match latest_value vals ctxs with
                     | Some [] => None | Some v => Some (k, v) | None => None end.

(* MergeCompactionIterator state: heap, previous key (hasPrev), value and context buffers *)
Record mci := mkMci { m_heap : @heap bytes mval; m_prev : option bytes; m_vals : list mval; m_ctxs : list N }.

(* Next: None = Done *)
Fixpoint mci_next (fuel : nat) (reduce : reduce_fn) (m : mci) : res (option (bytes * bytes) * mci) :=
  match fuel with
  | O => Err OutOfFuel
  | S f =>
      match next bcmp (m_heap m) with
      | Err e => Err e
      | Ok (None, h') =>
          match m_vals m with
          | [] => Ok (None, m)
          | _ =>
              match reduce (match m_prev m with Some k => k | None => [] end) (m_vals m) (m_ctxs m) with
              | Some kv => Ok (Some kv, mkMci h' (m_prev m) [] (m_ctxs m))
              | None => Ok (None, m)
              end
          end
      | Ok (Some (k, v, c), h') =>
          let boundary := match m_prev m with Some p => negb (beqb k p) | None => false end in
          let emitted := if boundary then reduce (match m_prev m with Some p => p | None => [] end) (m_vals m) (m_ctxs m) else None in
          let vals := if boundary then [v] else m_vals m ++ [v] in
          let ctxs := if boundary then [c] else m_ctxs m ++ [c] in
          let m' := mkMci h' (Some k) vals ctxs in
          match emitted with
          | Some kv => Ok (Some kv, m')
          | None => mci_next f reduce m'
          end
      end
  end.

Definition mci_init (inputs : list mstream) : res mci :=
  match init bcmp (number inputs) with
  | Err e => Err e
  | Ok h => Ok (mkMci h None [] [])
  end.

Fixpoint mci_drain (fuel : nat) (reduce : reduce_fn) (m : mci) : list (bytes * bytes) * option err :=
  match fuel with
  | O => ([], Some OutOfFuel)
  | S f =>
      match mci_next fuel reduce m with
      | Err e => ([], Some e)
      | Ok (None, _) => ([], None)
      | Ok (Some kv, m') => let '(l, e) := mci_drain f reduce m' in (kv :: l, e)
      end
  end.

(* MergeCompact: every emitted pair goes to the writer; iterator and writer errors abort *)
Fixpoint merge_compact_drain {St} (fuel : nat) (reduce : reduce_fn) (w : sink St) (m : mci) (s : St) : St * res unit :=
  match fuel with
  | O => (s, Err OutOfFuel)
  | S f =>
      match mci_next fuel reduce m with
      | Err e => (s, Err e)
      | Ok (None, _) => (s, Ok tt)
      | Ok (Some (k, v), m') =>
          match w s k (Some v) with
          | (s', Ok _) => merge_compact_drain f reduce w m' s'
          | (s', Err e) => (s', Err e)
          end
      end
  end.

Definition merge_compact {St} (reduce : reduce_fn) (w : sink St) (inputs : list mstream) (s : St) : St * res unit :=
  match mci_init inputs with
  | Err e => (s, Err e)
  | Ok m => merge_compact_drain (S (S (total_len (number inputs)))) reduce w m s
  end.

Definition scan_merged (reduce : reduce_fn) (inputs : list mstream) : list (bytes * bytes) * option err :=
  match mci_init inputs with
  | Err e => ([], Some e)
  | Ok m => mci_drain (S (S (total_len (number inputs)))) reduce m
  end.
