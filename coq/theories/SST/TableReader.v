(* SSTableReader (sstables/sstable_reader.go, sstable_iterator.go): Contains / Get / Scan /
   ScanStartingAt / ScanRange over an index (one of four loaders) and the data file, the value
   checksum rule, validation on load. *)
From GoSST Require Import Base.Bytes Base.Crc Struct.SkipList RecordIO.Format RecordIO.SeqReader RecordIO.MmapReader.
From GoSST Require Import SST.TableWriter SST.Index.
Local Open Scope N_scope.

Inductive loader := LSlice | LSkipList | LMap (w : nat) | LDisk (seekLen : N).

Record reader := mkReader {
  r_loader : loader;
  r_ci : codec; r_cd : codec;
  r_index_file : bytes;
  r_entries : list ientry;        (* loaded entries (slice / skip list / map); [] for disk *)
  r_data : bytes;
  r_bloom : bytes -> bool;        (* bloom filter membership; must hold for every added key *)
  r_check_on_read : bool
}.

(* getValueAtOffset: every error of ReadNextAt is passed on - also the bare EOF of an offset at or behind the end of
   the data file (until fix 3f24fb5 that one was read as the value nil) *)
Definition get_value_at (r : reader) (off crc : N) (skip_check : bool) : res (option bytes) :=
  match read_at (r_cd r) (r_data r) off with
  | Err e => Err e
  | Ok val =>
      if skip_check then Ok val
      else if crc64iso (payload_of val) =? crc then Ok val
      else if crc =? 0 then Ok val
      else Err ValueChecksum
  end.

(* index operations per loader; res because the disk index can fail *)
Definition idx_get (r : reader) (key : bytes) : res (option (N * N)) :=
  match r_loader r with
  | LSlice => Ok (slice_get (r_entries r) key)
  | LSkipList =>
      Ok (get bcmp key (map (fun e => mkTower (ikey e) (ival e) 1) (r_entries r)))
  | LMap w => Ok (map_get w (r_entries r) key None)
  | LDisk sl =>
      match disk_search (r_ci r) sl (r_index_file r) key with
      | Err e => Err e
      | Ok (_, Some e, true) => Ok (Some (ival e))
      | Ok _ => Ok None
      end
  end.

Definition idx_all (r : reader) : res (list ientry) :=
  match r_loader r with
  | LDisk sl => disk_iter (S (length (r_index_file r))) (r_ci r) sl (r_index_file r) 8 (lenN (r_index_file r))
  | _ => Ok (r_entries r)
  end.

Definition sl_of (es : list ientry) := map (fun e => mkTower (ikey e) (ival e) 1%nat) es.
Definition of_kvs (l : list (bytes * (N * N))) : list ientry := map (fun p => (fst p, fst (snd p), snd (snd p))) l.

Definition idx_from (r : reader) (key : bytes) : res (list ientry) :=
  match r_loader r with
  | LSlice | LMap _ => Ok (slice_from (r_entries r) key)
  | LSkipList => Ok (of_kvs (scan_from bcmp key (sl_of (r_entries r))))
  | LDisk sl =>
      match disk_search (r_ci r) sl (r_index_file r) key with
      | Err e => Err e
      | Ok (off, _, _) => disk_iter (S (length (r_index_file r))) (r_ci r) sl (r_index_file r) off (lenN (r_index_file r))
      end
  end.

(* None = rejected (lower > upper) *)
Definition idx_between (r : reader) (lo hi : bytes) : res (option (list ientry)) :=
  match r_loader r with
  | LSlice | LMap _ => Ok (slice_between (r_entries r) lo hi)
  | LSkipList =>
      Ok (match scan_between bcmp lo hi (sl_of (r_entries r)) with Some l => Some (of_kvs l) | None => None end)
  | LDisk sl =>
      match bcmp lo hi with
      | Gt => Ok None
      | _ =>
          match disk_search (r_ci r) sl (r_index_file r) lo with
          | Err e => Err e
          | Ok (s, _, _) =>
              match disk_search (r_ci r) sl (r_index_file r) hi with
              | Err e => Err e
              | Ok (e, _, found) =>
                  let fuel := S (length (r_index_file r)) in
                  if found then
                    match disk_iter fuel (r_ci r) sl (r_index_file r) s e with Ok l => Ok (Some l) | Err x => Err x end
                  else if e =? 0 then Ok (Some [])
                  else match disk_iter fuel (r_ci r) sl (r_index_file r) s (e - 1) with Ok l => Ok (Some l) | Err x => Err x end
              end
          end
      end
  end.

Definition rd_contains (r : reader) (key : bytes) : res bool :=
  if negb (r_bloom r key) then Ok false
  else match idx_get r key with Ok (Some _) => Ok true | Ok None => Ok false | Err e => Err e end.

Definition rd_get (r : reader) (key : bytes) : res (option bytes) :=
  match idx_get r key with
  | Err e => Err e
  | Ok None => Err NotFound
  | Ok (Some (off, crc)) => get_value_at r off crc (negb (r_check_on_read r))
  end.

(* a scan result: the pairs delivered before the scan ended, and the error that ended it (None = Done) *)
Definition scan_res := (list (bytes * option bytes) * option err)%type.

Fixpoint scan_by_index (r : reader) (es : list ientry) : scan_res :=
  match es with
  | [] => ([], None)
  | e :: rest =>
      match get_value_at r (snd (fst e)) (snd e) (negb (r_check_on_read r)) with
      | Err x => ([], Some x)
      | Ok v => let '(l, x) := scan_by_index r rest in ((ikey e, v) :: l, x)
      end
  end.

(* full scan: index order zipped with a sequential read of the data file *)
Fixpoint scan_full (r : reader) (es : list ientry) (pos : N) : scan_res :=
  match es with
  | [] => ([], None)
  | e :: rest =>
      match read_next (r_cd r) (r_data r) pos with
      | (Err x, _) => ([], Some x)
      | (Ok v, pos') =>
          if r_check_on_read r && negb (crc64iso (payload_of v) =? snd e) && negb (snd e =? 0)
          then ([], Some ValueChecksum)
          else let '(l, x) := scan_full r rest pos' in ((ikey e, v) :: l, x)
      end
  end.

Definition rd_scan (r : reader) : scan_res :=
  match idx_all r with
  | Err e => ([], Some e)
  | Ok es => match r_open (r_data r) with
             | Err e => ([], Some e)
             | Ok pos => scan_full r es pos
             end
  end.

Definition rd_scan_from (r : reader) (key : bytes) : scan_res :=
  match idx_from r key with Err e => ([], Some e) | Ok es => scan_by_index r es end.

(* None = rejected *)
Definition rd_scan_range (r : reader) (lo hi : bytes) : option scan_res :=
  match idx_between r lo hi with
  | Err e => Some ([], Some e)
  | Ok None => None
  | Ok (Some es) => Some (scan_by_index r es)
  end.

(* validateDataFile *)
Fixpoint validate_all (r : reader) (es : list ientry) : res unit :=
  match es with
  | [] => Ok tt
  | e :: rest =>
      match get_value_at r (snd (fst e)) (snd e) false with
      | Err x => Err x
      | Ok _ => validate_all r rest
      end
  end.

(* NewSSTableReader: load the index, open the data file, validate unless skipped *)
Definition open_reader (ld : loader) (ci cd : codec) (index_file data_file : bytes)
  (bloom : bytes -> bool) (skip_on_load check_on_read : bool) : res reader :=
  let entries :=
    match ld with
    | LDisk _ => match parse_file_hdr index_file with Ok _ => Ok [] | Err e => Err e end
    | _ => load_index ci index_file
    end in
  match entries with
  | Err e => Err e
  | Ok es =>
      match parse_file_hdr data_file with
      | Err e => Err e
      | Ok _ =>
          let r := mkReader ld ci cd index_file es data_file bloom check_on_read in
          if skip_on_load then Ok r
          else match idx_all r with
               | Err e => Err e
               | Ok all => match validate_all r all with Ok _ => Ok r | Err e => Err e end
               end
      end
  end.

Definition open_table (ld : loader) (t : table_files) (ci cd : codec) : res reader :=
  open_reader ld ci cd (tf_index t) (tf_data t) (fun k => existsb (bytes_eqb k) (tf_bloom t)) false false.
