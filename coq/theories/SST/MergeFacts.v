(* C08 / C11: merging and stacking tables equals the latest-wins union of their contents, and
   faults of inputs or of the output writer are never absorbed. *)
From GoSST Require Import Base.Bytes Base.Order Struct.Heap Struct.HeapFacts.
From GoSST Require Import SST.Merge.
From Coq Require Import Lia Sorting.Sorted Sorting.Permutation.
Local Open Scope N_scope.

Definition table := list (bytes * mval).      (* strictly ascending keys; None = tombstone *)
Definition tsorted (t : table) : Prop := StronglySorted (fun a b => bcmp (fst a) (fst b) = Lt) t.

(* sorted insert-or-replace and the latest-wins union, oldest table first *)
Fixpoint t_set (k : bytes) (v : mval) (l : table) : table :=
  match l with
  | [] => [(k, v)]
  | (k', v') :: r =>
      match bcmp k k' with
      | Lt => (k, v) :: l
      | Eq => (k, v) :: r
      | Gt => (k', v') :: t_set k v r
      end
  end.
Definition overlay (base newer : table) : table := fold_left (fun acc kv => t_set (fst kv) (snd kv) acc) newer base.
Definition union_latest (tables : list table) : table := fold_left overlay tables [].

Fixpoint t_get (k : bytes) (l : table) : option mval :=
  match l with
  | [] => None
  | (k', v) :: r => if beqb k k' then Some v else t_get k r
  end.

Definition live (l : table) : list (bytes * bytes) :=
  flat_map (fun kv => match snd kv with Some v => [(fst kv, v)] | None => [] end) l.
Definition live_nonempty (l : table) : list (bytes * bytes) :=
  flat_map (fun kv => match snd kv with Some [] => [] | Some v => [(fst kv, v)] | None => [] end) l.

Definition as_stream (t : table) : mstream := map (fun kv => Ok kv) t.

(* ---------- keys, equality test ---------- *)
Lemma beqb_true a b : beqb a b = true -> a = b.
Proof. unfold beqb. destruct (bcmp a b) eqn:E; try discriminate. intros _. apply bcmp_eq, E. Qed.

Lemma beqb_refl a : beqb a a = true.
Proof. unfold beqb. rewrite bcmp_refl. reflexivity. Qed.

Lemma beqb_false a b : beqb a b = false -> a <> b.
Proof. intros H E. subst. rewrite beqb_refl in H. discriminate. Qed.

Lemma beqb_sym a b : beqb a b = beqb b a.
Proof. unfold beqb. rewrite (bcmp_antisym b a). destruct (bcmp b a); reflexivity. Qed.

Lemma beqb_lt a b : bcmp a b = Lt -> beqb a b = false.
Proof. unfold beqb. intros ->. reflexivity. Qed.

Lemma beqb_gt a b : bcmp a b = Lt -> beqb b a = false.
Proof. intros H. rewrite beqb_sym. apply beqb_lt, H. Qed.

(* ---------- generic association lists with strictly ascending keys ---------- *)
Definition ksorted {A} (l : list (bytes * A)) : Prop :=
  StronglySorted (fun a b => bcmp (fst a) (fst b) = Lt) l.

Definition above {A} (k : bytes) (l : list (bytes * A)) : Prop :=
  Forall (fun b => bcmp k (fst b) = Lt) l.

Fixpoint aget {A} (k : bytes) (l : list (bytes * A)) : option A :=
  match l with
  | [] => None
  | (k', v) :: r => if beqb k k' then Some v else aget k r
  end.

Lemma t_get_aget k (l : table) : t_get k l = aget k l.
Proof. induction l as [|[k' v] r IH]; simpl; [reflexivity|]. rewrite IH. reflexivity. Qed.

Lemma aget_above {A} k (l : list (bytes * A)) : above k l -> aget k l = None.
Proof.
  induction l as [|[k' v] r IH]; intros Ha; simpl; [reflexivity|].
  pose proof (Forall_inv Ha) as H1. simpl in H1. rewrite (beqb_lt _ _ H1).
  apply IH. apply (Forall_inv_tail Ha).
Qed.

Lemma above_trans {A} a b (l : list (bytes * A)) : bcmp a b = Lt -> above b l -> above a l.
Proof.
  intros Hab Hb. unfold above in *. eapply Forall_impl; [|exact Hb].
  intros x Hx. simpl in Hx. eapply bcmp_trans; eassumption.
Qed.

Lemma ksorted_inv {A} (x : bytes * A) l : ksorted (x :: l) -> ksorted l /\ above (fst x) l.
Proof. intros H. apply StronglySorted_inv in H. exact H. Qed.

Lemma ksorted_cons {A} (x : bytes * A) l : ksorted l -> above (fst x) l -> ksorted (x :: l).
Proof. intros H1 H2. constructor; assumption. Qed.

Lemma aget_ext {A} (l1 : list (bytes * A)) : forall l2,
  ksorted l1 -> ksorted l2 -> (forall k, aget k l1 = aget k l2) -> l1 = l2.
Proof.
  induction l1 as [|[k1 v1] r1 IH]; intros [|[k2 v2] r2] S1 S2 Hg.
  - reflexivity.
  - specialize (Hg k2). simpl in Hg. rewrite beqb_refl in Hg. discriminate.
  - specialize (Hg k1). simpl in Hg. rewrite beqb_refl in Hg. discriminate.
  - apply ksorted_inv in S1. destruct S1 as [S1 A1]. apply ksorted_inv in S2. destruct S2 as [S2 A2].
    simpl in A1, A2.
    destruct (bcmp k1 k2) eqn:E.
    + apply bcmp_eq in E. subst k2.
      pose proof (Hg k1) as H1. simpl in H1. rewrite beqb_refl in H1. inversion H1; subst v2.
      f_equal. apply IH; [exact S1|exact S2|].
      intros k. specialize (Hg k). simpl in Hg. destruct (beqb k k1) eqn:Ek; [|exact Hg].
      apply beqb_true in Ek. subst k. rewrite (aget_above _ _ A1), (aget_above _ _ A2). reflexivity.
    + exfalso. specialize (Hg k1). simpl in Hg. rewrite beqb_refl, (beqb_lt _ _ E) in Hg.
      rewrite (aget_above k1 r2) in Hg; [discriminate|]. eapply above_trans; eassumption.
    + exfalso. assert (E' : bcmp k2 k1 = Lt) by (apply (cmp_gt_lt bcmp bcmp_laws); exact E).
      specialize (Hg k2). simpl in Hg. rewrite beqb_refl, (beqb_lt _ _ E') in Hg.
      rewrite (aget_above k2 r1) in Hg; [discriminate|]. eapply above_trans; eassumption.
Qed.

(* ---------- t_set, overlay, union ---------- *)
Lemma t_set_above a k v (l : table) : bcmp a k = Lt -> above a l -> above a (t_set k v l).
Proof.
  intros Hak. induction l as [|[k' v'] r IH]; intros Ha; simpl.
  - constructor; [exact Hak|constructor].
  - pose proof (Forall_inv Ha) as H1. pose proof (Forall_inv_tail Ha) as H2.
    destruct (bcmp k k') eqn:E.
    + constructor; [exact Hak|exact H2].
    + constructor; [exact Hak|exact Ha].
    + constructor; [exact H1|apply IH, H2].
Qed.

Lemma t_set_sorted k v (l : table) : tsorted l -> tsorted (t_set k v l).
Proof.
  induction l as [|[k' v'] r IH]; intros Hs; simpl.
  - constructor; constructor.
  - apply (ksorted_inv (k', v') r) in Hs. destruct Hs as [Hs Ha]. simpl in Ha.
    destruct (bcmp k k') eqn:E.
    + apply bcmp_eq in E. subst k'. apply (ksorted_cons (k, v)); assumption.
    + apply (ksorted_cons (k, v)); [apply (ksorted_cons (k', v')); assumption|].
      constructor; [exact E|]. eapply above_trans; eassumption.
    + apply (ksorted_cons (k', v')); [apply IH, Hs|]. simpl.
      apply t_set_above; [|exact Ha]. apply (cmp_gt_lt bcmp bcmp_laws). exact E.
Qed.

Lemma t_get_t_set k k' v (l : table) :
  t_get k (t_set k' v l) = if beqb k k' then Some v else t_get k l.
Proof.
  induction l as [|[k2 v2] r IH]; simpl.
  - reflexivity.
  - destruct (bcmp k' k2) eqn:E; simpl.
    + apply bcmp_eq in E. subst k2. destruct (beqb k k'); reflexivity.
    + reflexivity.
    + rewrite IH. destruct (beqb k k') eqn:Ek; [|reflexivity].
      apply beqb_true in Ek. subst k'.
      assert (E2 : bcmp k2 k = Lt) by (apply (cmp_gt_lt bcmp bcmp_laws); exact E).
      rewrite (beqb_gt _ _ E2). reflexivity.
Qed.

Lemma overlay_sorted (newer : table) : forall base, tsorted base -> tsorted (overlay base newer).
Proof.
  unfold overlay. induction newer as [|[k v] r IH]; intros base Hb; simpl; [exact Hb|].
  apply IH. apply t_set_sorted, Hb.
Qed.

Lemma t_get_overlay k (newer : table) : forall base,
  tsorted newer ->
  t_get k (overlay base newer) = match t_get k newer with Some v => Some v | None => t_get k base end.
Proof.
  unfold overlay. induction newer as [|[k1 v1] r IH]; intros base Hs; simpl; [reflexivity|].
  apply (ksorted_inv (k1, v1) r) in Hs. destruct Hs as [Hs Ha]. simpl in Ha.
  rewrite (IH _ Hs). rewrite t_get_t_set.
  destruct (beqb k k1) eqn:Ek; [|reflexivity].
  apply beqb_true in Ek. subst k1. rewrite t_get_aget, (aget_above _ _ Ha). reflexivity.
Qed.

Lemma fold_overlay_sorted (tables : list table) : forall acc,
  Forall tsorted tables -> tsorted acc -> tsorted (fold_left overlay tables acc).
Proof.
  induction tables as [|t ts IH]; intros acc Hall Hacc; simpl; [exact Hacc|].
  apply IH; [apply (Forall_inv_tail Hall)|]. apply overlay_sorted, Hacc.
Qed.

Lemma union_latest_sorted tables : Forall tsorted tables -> tsorted (union_latest tables).
Proof. intros H. apply fold_overlay_sorted; [exact H|constructor]. Qed.

(* the union's value for a key is the value of the newest table that contains the key *)
Fixpoint newest_value (k : bytes) (tables_newest_first : list table) : option mval :=
  match tables_newest_first with
  | [] => None
  | t :: r => match t_get k t with Some v => Some v | None => newest_value k r end
  end.

Lemma newest_value_app k l1 l2 :
  newest_value k (l1 ++ l2)
  = match newest_value k l1 with Some v => Some v | None => newest_value k l2 end.
Proof.
  induction l1 as [|t r IH]; simpl; [reflexivity|]. destruct (t_get k t); [reflexivity|exact IH].
Qed.

Lemma t_get_fold_overlay k (tables : list table) : forall acc,
  Forall tsorted tables ->
  t_get k (fold_left overlay tables acc)
  = match newest_value k (rev tables) with Some v => Some v | None => t_get k acc end.
Proof.
  induction tables as [|t ts IH]; intros acc Hall; simpl; [reflexivity|].
  rewrite (IH _ (Forall_inv_tail Hall)). rewrite newest_value_app. simpl.
  rewrite (t_get_overlay _ _ _ (Forall_inv Hall)).
  destruct (newest_value k (rev ts)); [reflexivity|]. destruct (t_get k t); reflexivity.
Qed.

Lemma union_latest_get tables k :
  Forall tsorted tables -> t_get k (union_latest tables) = newest_value k (rev tables).
Proof.
  intros H. unfold union_latest. rewrite (t_get_fold_overlay _ _ _ H). simpl.
  destruct (newest_value k (rev tables)); reflexivity.
Qed.

(* ---------- the stream of heap outputs, independently of what consumes it ---------- *)
Notation hout := (bytes * mval * N)%type (only parsing).
Definition okey (x : hout) : bytes := fst (fst x).
Definition oval (x : hout) : mval := snd (fst x).
Definition octx (x : hout) : N := snd x.

Inductive hrun : @heap bytes mval -> list hout -> Prop :=
| hrun_nil : hrun [] []
| hrun_cons h x h' l : next bcmp h = Ok (Some x, h') -> hrun h' l -> hrun h (x :: l).

Lemma next_none (h h' : @heap bytes mval) : next bcmp h = Ok (None, h') -> h = [] /\ h' = [].
Proof.
  destruct h as [|top rest]; simpl.
  - intros H. inversion H. split; reflexivity.
  - destruct (fill_next (ectx top) (erest top)); discriminate.
Qed.

Lemma drain_hrun fuel : forall h outs, drain_heap bcmp fuel h = Ok outs -> hrun h outs.
Proof.
  induction fuel as [|f IH]; intros h outs H; simpl in H; [discriminate|].
  destruct (next bcmp h) as [[[x|] h']|e] eqn:En; try discriminate.
  - destruct (drain_heap bcmp f h') as [l|e] eqn:Ed; try discriminate.
    inversion H; subst outs. eapply hrun_cons; [exact En|]. apply IH, Ed.
  - inversion H; subst outs. apply next_none in En. destruct En as [-> _]. constructor.
Qed.

(* plain Merge is feed over the heap outputs *)
Fixpoint feed {St} (w : sink St) (s : St) (kvs : list (bytes * mval)) : St * res unit :=
  match kvs with
  | [] => (s, Ok tt)
  | (k, v) :: r => match w s k v with
                   | (s', Ok _) => feed w s' r
                   | (s', Err e) => (s', Err e)
                   end
  end.

Lemma merge_drain_hrun {St} (w : sink St) h outs : hrun h outs ->
  forall fuel s, (length outs < fuel)%nat -> merge_drain fuel w h s = feed w s (map fst outs).
Proof.
  induction 1 as [|h x h' l Hn Hr IH]; intros fuel s Hf.
  - destruct fuel as [|f]; [lia|]. reflexivity.
  - destruct fuel as [|f]; [simpl in Hf; lia|]. simpl in Hf. simpl. rewrite Hn.
    destruct x as [[k v] c]. simpl. destruct (w s k v) as [s' [u|e]]; [|reflexivity].
    apply IH. lia.
Qed.

(* the accumulating iterator as a pure function of the heap outputs *)
Definition pkey (p : option bytes) : bytes := match p with Some k => k | None => [] end.

Definition pstate := (option bytes * list mval * list N * list hout)%type.

Fixpoint gnext (reduce : reduce_fn) (prev : option bytes) (vals : list mval) (ctxs : list N)
         (outs : list hout) : option (bytes * bytes) * pstate :=
  match outs with
  | [] =>
      match vals with
      | [] => (None, (prev, vals, ctxs, []))
      | _ => match reduce (pkey prev) vals ctxs with
             | Some kv => (Some kv, (prev, [], ctxs, []))
             | None => (None, (prev, vals, ctxs, []))
             end
      end
  | (k, v, c) :: r =>
      let boundary := match prev with Some p => negb (beqb k p) | None => false end in
      let emitted := if boundary then reduce (pkey prev) vals ctxs else None in
      let vals' := if boundary then [v] else vals ++ [v] in
      let ctxs' := if boundary then [c] else ctxs ++ [c] in
      match emitted with
      | Some kv => (Some kv, (Some k, vals', ctxs', r))
      | None => gnext reduce (Some k) vals' ctxs' r
      end
  end.

Fixpoint group (reduce : reduce_fn) (prev : option bytes) (vals : list mval) (ctxs : list N)
         (outs : list hout) : list (bytes * bytes) :=
  match outs with
  | [] =>
      match vals with
      | [] => []
      | _ => match reduce (pkey prev) vals ctxs with Some kv => [kv] | None => [] end
      end
  | (k, v, c) :: r =>
      let boundary := match prev with Some p => negb (beqb k p) | None => false end in
      let emitted := if boundary then reduce (pkey prev) vals ctxs else None in
      let vals' := if boundary then [v] else vals ++ [v] in
      let ctxs' := if boundary then [c] else ctxs ++ [c] in
      match emitted with
      | Some kv => kv :: group reduce (Some k) vals' ctxs' r
      | None => group reduce (Some k) vals' ctxs' r
      end
  end.

Lemma group_gnext reduce outs : forall prev vals ctxs,
  group reduce prev vals ctxs outs
  = match gnext reduce prev vals ctxs outs with
    | (None, _) => []
    | (Some kv, (p', v', c', outs')) => kv :: group reduce p' v' c' outs'
    end.
Proof.
  induction outs as [|[[k v] c] r IH]; intros prev vals ctxs.
  - simpl. destruct vals as [|v0 vs]; [reflexivity|].
    destruct (reduce (pkey prev) (v0 :: vs) ctxs); reflexivity.
  - cbn [group gnext].
    destruct (if match prev with Some p => negb (beqb k p) | None => false end
              then reduce (pkey prev) vals ctxs else None) as [kv|]; [reflexivity|].
    apply IH.
Qed.

Lemma gnext_shrinks reduce outs : forall prev vals ctxs kv p' v' c' outs',
  gnext reduce prev vals ctxs outs = (Some kv, (p', v', c', outs')) ->
  (outs = [] /\ outs' = [] /\ v' = []) \/ (length outs' < length outs)%nat.
Proof.
  induction outs as [|[[k v] c] r IH]; intros prev vals ctxs kv p' v' c' outs' H.
  - left. simpl in H. destruct vals as [|v0 vs]; [discriminate|].
    destruct (reduce (pkey prev) (v0 :: vs) ctxs); inversion H; subst. repeat split.
  - right. cbn [gnext] in H.
    destruct (if match prev with Some p => negb (beqb k p) | None => false end
              then reduce (pkey prev) vals ctxs else None) as [kv0|].
    + inversion H; subst. simpl. lia.
    + apply IH in H. destruct H as [(-> & -> & _)|H]; simpl in *; lia.
Qed.

Lemma mci_next_hrun reduce h outs : hrun h outs ->
  forall fuel prev vals ctxs, (length outs < fuel)%nat ->
  exists h',
    mci_next fuel reduce (mkMci h prev vals ctxs)
    = Ok (fst (gnext reduce prev vals ctxs outs),
          mkMci h' (fst (fst (fst (snd (gnext reduce prev vals ctxs outs)))))
                   (snd (fst (fst (snd (gnext reduce prev vals ctxs outs)))))
                   (snd (fst (snd (gnext reduce prev vals ctxs outs)))))
    /\ hrun h' (snd (snd (gnext reduce prev vals ctxs outs))).
Proof.
  induction 1 as [|h x h' l Hn Hr IH]; intros fuel prev vals ctxs Hf.
  - destruct fuel as [|f]; [lia|]. exists []. cbn [mci_next m_heap next m_vals m_prev m_ctxs gnext].
    destruct vals as [|v0 vs]; [split; [reflexivity|constructor]|].
    change (match prev with Some k => k | None => [] end) with (pkey prev).
    destruct (reduce (pkey prev) (v0 :: vs) ctxs); (split; [reflexivity|constructor]).
  - destruct fuel as [|f]; [simpl in Hf; lia|]. simpl in Hf. destruct x as [[k v] c].
    cbn [mci_next m_heap m_vals m_prev m_ctxs gnext]. rewrite Hn.
    change (match prev with Some p => p | None => [] end) with (pkey prev).
    destruct (if match prev with Some p => negb (beqb k p) | None => false end
              then reduce (pkey prev) vals ctxs else None) as [kv|].
    + exists h'. split; [reflexivity|exact Hr].
    + apply IH. lia.
Qed.

Lemma mci_drain_end fuel reduce p c : (1 <= fuel)%nat ->
  mci_drain fuel reduce (mkMci [] p [] c) = ([], None).
Proof. destruct fuel as [|f]; [lia|]. intros _. reflexivity. Qed.

Lemma mci_drain_hrun reduce fuel : forall h outs prev vals ctxs,
  hrun h outs -> (length outs + 2 <= fuel)%nat ->
  mci_drain fuel reduce (mkMci h prev vals ctxs) = (group reduce prev vals ctxs outs, None).
Proof.
  induction fuel as [|f IH]; intros h outs prev vals ctxs Hr Hf; [lia|].
  destruct (mci_next_hrun reduce h outs Hr (S f) prev vals ctxs) as (h' & Hm & Hr'); [lia|].
  rewrite group_gnext. cbn [mci_drain]. rewrite Hm.
  destruct (gnext reduce prev vals ctxs outs) as [[kv|] [[[p' v'] c'] outs']] eqn:Eg;
    cbn [fst snd] in *; [|reflexivity].
  destruct (gnext_shrinks _ _ _ _ _ _ _ _ _ _ Eg) as [(-> & -> & ->)|Hlt].
  - inversion Hr'; subst. rewrite mci_drain_end by (simpl in Hf; lia). reflexivity.
  - rewrite (IH h' outs' p' v' c' Hr') by lia. reflexivity.
Qed.

(* MergeCompact with a sink is feed over what the scan emits, whenever the scan has no error *)
Definition some_val (kv : bytes * bytes) : bytes * mval := (fst kv, Some (snd kv)).

Lemma merge_compact_drain_feed {St} reduce (w : sink St) fuel : forall m s,
  snd (mci_drain fuel reduce m) = None ->
  merge_compact_drain fuel reduce w m s = feed w s (map some_val (fst (mci_drain fuel reduce m))).
Proof.
  induction fuel as [|f IH]; intros m s Hn; [simpl in Hn; discriminate|].
  cbn [mci_drain merge_compact_drain] in *.
  destruct (mci_next (S f) reduce m) as [[[[k v]|] m']|e]; cbn [fst snd] in *;
    [|reflexivity|discriminate].
  destruct (mci_drain f reduce m') as [l e] eqn:Ed. cbn [fst snd] in *. subst e.
  cbn [map some_val feed fst snd]. destruct (w s k (Some v)) as [s' [u|e]]; [|reflexivity].
  rewrite IH; rewrite Ed; reflexivity.
Qed.

(* ---------- numbering of the inputs ---------- *)
Fixpoint number_from {A} (i : N) (l : list A) : list (N * A) :=
  match l with [] => [] | x :: r => (i, x) :: number_from (i + 1) r end.

Lemma number_is_from {A} (l : list A) : number l = number_from 0 l.
Proof.
  unfold number. generalize 0. induction l as [|x r IH]; intros i; simpl; [reflexivity|].
  rewrite IH. reflexivity.
Qed.

Lemma number_from_ge {A} (l : list A) : forall i c x, In (c, x) (number_from i l) -> i <= c.
Proof.
  induction l as [|y r IH]; intros i c x Hin; simpl in Hin; [contradiction|].
  destruct Hin as [Heq|Hin]; [inversion Heq; lia|]. apply IH in Hin. lia.
Qed.

Lemma number_from_nodup {A} (l : list A) : forall i, NoDup (map fst (number_from i l)).
Proof.
  induction l as [|y r IH]; intros i; simpl; constructor; [|apply IH].
  intros Hin. apply in_map_iff in Hin. destruct Hin as ([c x] & Hc & Hin). simpl in Hc. subst c.
  apply number_from_ge in Hin. lia.
Qed.

Lemma number_from_map {A B} (f : A -> B) (l : list A) : forall i,
  number_from i (map f l) = map (fun p => (fst p, f (snd p))) (number_from i l).
Proof. induction l as [|y r IH]; intros i; simpl; [reflexivity|]. rewrite IH. reflexivity. Qed.

Lemma number_from_in {A} (l : list A) : forall i c x, In (c, x) (number_from i l) -> In x l.
Proof.
  induction l as [|y r IH]; intros i c x Hin; simpl in Hin; [contradiction|].
  destruct Hin as [Heq|Hin]; [inversion Heq; left; reflexivity|right; eapply IH, Hin].
Qed.

Lemma number_from_total (tables : list table) : forall i,
  total_len (number_from i (map as_stream tables)) = length (concat tables).
Proof.
  induction tables as [|t ts IH]; intros i; simpl; [reflexivity|].
  rewrite IH, app_length. unfold as_stream. rewrite map_length. reflexivity.
Qed.

(* newest_value in terms of the numbering *)
Lemma newest_none k (tables : list table) : forall i,
  (forall c t, In (c, t) (number_from i tables) -> t_get k t = None) ->
  newest_value k (rev tables) = None.
Proof.
  induction tables as [|t ts IH]; intros i H; simpl; [reflexivity|].
  rewrite newest_value_app. rewrite (IH (i + 1)).
  - simpl. rewrite (H i t); [reflexivity|left; reflexivity].
  - intros c t' Hin. apply (H c t'). right. exact Hin.
Qed.

Lemma newest_some k v (tables : list table) : forall i cm t,
  In (cm, t) (number_from i tables) -> t_get k t = Some v ->
  (forall c t', In (c, t') (number_from i tables) -> cm < c -> t_get k t' = None) ->
  newest_value k (rev tables) = Some v.
Proof.
  induction tables as [|t0 ts IH]; intros i cm t Hin Hg Hn; simpl in Hin; [contradiction|].
  simpl. rewrite newest_value_app. destruct Hin as [Heq|Hin].
  - inversion Heq; subst cm t0. rewrite (newest_none k ts (i + 1)).
    + simpl. rewrite Hg. reflexivity.
    + intros c t' Hin. apply (Hn c t'); [right; exact Hin|]. apply number_from_ge in Hin. lia.
  - rewrite (IH (i + 1) cm t Hin Hg); [reflexivity|].
    intros c t' Hin' Hlt. apply (Hn c t'); [right; exact Hin'|exact Hlt].
Qed.

(* ---------- what the heap delivers for sorted tables ---------- *)
Definition ntables (tables : list table) : list (N * table) := number_from 0 tables.

Lemma oks_as_stream (t : table) : oks (as_stream t) = t.
Proof. induction t as [|kv r IH]; simpl; [reflexivity|]. rewrite IH. reflexivity. Qed.

Lemma all_ok_as_stream (t : table) : all_ok (as_stream t).
Proof.
  unfold all_ok, as_stream. apply Forall_forall. intros x Hx. apply in_map_iff in Hx.
  destruct Hx as (kv & <- & _). exists kv. reflexivity.
Qed.

Lemma tsorted_nondesc (t : table) : tsorted t -> nondesc bcmp t.
Proof.
  induction 1 as [|x l Hs IH Hf]; constructor; [exact IH|].
  eapply Forall_impl; [|exact Hf]. intros y Hy. simpl in Hy. rewrite Hy. discriminate.
Qed.

Record outs_spec (tables : list table) (outs : list hout) : Prop := {
  os_sorted : out_nondesc bcmp outs;
  os_of_ctx : forall c t, In (c, t) (ntables tables) -> of_ctx c outs = t;
  os_sound : forall x, In x outs -> exists t, In (octx x, t) (ntables tables) /\ In (okey x, oval x) t;
  os_complete : forall c t k v, In (c, t) (ntables tables) -> In (k, v) t -> In (k, v, c) outs;
  os_length : length outs = total_len (number (map as_stream tables))
}.

Lemma heap_outputs (tables : list table) :
  Forall tsorted tables ->
  exists h outs,
    init bcmp (number (map as_stream tables)) = Ok h
    /\ hrun h outs /\ outs_spec tables outs.
Proof.
  intros Hs. set (its := number (map as_stream tables)).
  assert (Hits : its = map (fun p => (fst p, as_stream (snd p))) (ntables tables))
    by (unfold its, ntables; rewrite number_is_from; apply number_from_map).
  destruct (heap_merge_sorted bcmp bcmp_laws its) as (outs & Hm & Hsort & Hof & Htag & Hlen).
  { unfold its. rewrite number_is_from. apply number_from_nodup. }
  { apply Forall_forall. intros [c s] Hin. rewrite Hits in Hin. apply in_map_iff in Hin.
    destruct Hin as ([c' t] & Heq & Hin). simpl in Heq. inversion Heq; subst c s. simpl.
    split; [apply all_ok_as_stream|]. rewrite oks_as_stream. apply tsorted_nondesc.
    rewrite Forall_forall in Hs. apply Hs. eapply number_from_in, Hin. }
  unfold merge_all in Hm. destruct (init bcmp its) as [h|e] eqn:Ei; [|discriminate].
  exists h, outs. split; [reflexivity|]. split; [eapply drain_hrun, Hm|].
  assert (Hof' : forall c t, In (c, t) (ntables tables) -> of_ctx c outs = t).
  { intros c t Hin. rewrite <- (oks_as_stream t). apply Hof. rewrite Hits.
    apply in_map_iff. exists (c, t). split; [reflexivity|exact Hin]. }
  constructor.
  - exact Hsort.
  - exact Hof'.
  - intros x Hx. rewrite Forall_forall in Htag. pose proof (Htag x Hx) as Hc.
    rewrite Hits, map_map in Hc. simpl in Hc. apply in_map_iff in Hc.
    destruct Hc as ([c t] & Hc & Hin). simpl in Hc. exists t. unfold octx. rewrite <- Hc.
    split; [exact Hin|]. rewrite <- (Hof' c t Hin). rewrite Hc.
    change (okey x, oval x) with (fst (fst x), snd (fst x)). rewrite <- surjective_pairing.
    apply in_of_ctx, Hx.
  - intros c t k v Hin Hkv. rewrite <- (Hof' c t Hin) in Hkv. unfold of_ctx in Hkv.
    apply in_map_iff in Hkv. destruct Hkv as ([kv c'] & Hfst & Hf). simpl in Hfst. subst kv.
    apply filter_In in Hf. destruct Hf as [Hf Hc]. simpl in Hc. apply N.eqb_eq in Hc. subst c'.
    exact Hf.
  - exact Hlen.
Qed.

(* both consumers of the heap, in terms of one list of heap outputs *)
Lemma heap_consumers (tables : list table) :
  Forall tsorted tables ->
  exists outs,
    outs_spec tables outs
    /\ (forall reduce, scan_merged reduce (map as_stream tables) = (group reduce None [] [] outs, None))
    /\ (forall St (w : sink St) s, merge w (map as_stream tables) s = feed w s (map fst outs)).
Proof.
  intros Hs. destruct (heap_outputs tables Hs) as (h & outs & Hi & Hr & Hspec).
  exists outs. split; [exact Hspec|]. split.
  - intros reduce. unfold scan_merged, mci_init. rewrite Hi.
    apply mci_drain_hrun; [exact Hr|]. rewrite (os_length _ _ Hspec). lia.
  - intros St w s. unfold merge. rewrite Hi. apply merge_drain_hrun; [exact Hr|].
    rewrite (os_length _ _ Hspec). lia.
Qed.

Lemma group_ext r1 r2 : (forall k vs cs, r1 k vs cs = r2 k vs cs) ->
  forall outs prev vals ctxs, group r1 prev vals ctxs outs = group r2 prev vals ctxs outs.
Proof.
  intros He. induction outs as [|[[k v] c] r IH]; intros prev vals ctxs; cbn [group].
  - rewrite He. reflexivity.
  - rewrite He. destruct (if match prev with Some p => negb (beqb k p) | None => false end
                          then r2 (pkey prev) vals ctxs else None); rewrite IH; reflexivity.
Qed.

(* ---------- which value a run of equal keys reduces to ---------- *)
Lemma max_ctx_index_spec ctxs : forall i best besti,
  (max_ctx_index ctxs i best besti = besti /\ forall c, In c ctxs -> c <= best)
  \/ ((i <= max_ctx_index ctxs i best besti < i + length ctxs)%nat
      /\ best < nth (max_ctx_index ctxs i best besti - i) ctxs 0
      /\ forall c, In c ctxs -> c <= nth (max_ctx_index ctxs i best besti - i) ctxs 0).
Proof.
  induction ctxs as [|x rest IH]; intros i best besti; simpl max_ctx_index.
  - left. split; [reflexivity|]. intros c [].
  - destruct (best <? x) eqn:E.
    + apply N.ltb_lt in E. right.
      destruct (IH (S i) x i) as [[Hr Hle]|(Hr & Hlt & Hle)].
      * rewrite Hr. replace (i - i)%nat with O by lia. simpl.
        split; [lia|]. split; [exact E|]. intros c [<-|Hc]; [lia|apply Hle, Hc].
      * set (r := max_ctx_index rest (S i) x i) in *.
        replace (r - i)%nat with (S (r - S i)) by lia. simpl.
        split; [lia|]. split; [lia|]. intros c [<-|Hc]; [lia|apply Hle, Hc].
    + apply N.ltb_ge in E.
      destruct (IH (S i) best besti) as [[Hr Hle]|(Hr & Hlt & Hle)].
      * left. split; [exact Hr|]. intros c [<-|Hc]; [exact E|apply Hle, Hc].
      * right. set (r := max_ctx_index rest (S i) best besti) in *.
        replace (r - i)%nat with (S (r - S i)) by lia. simpl.
        split; [lia|]. split; [exact Hlt|]. intros c [<-|Hc]; [lia|apply Hle, Hc].
Qed.

Lemma latest_in (R : list hout) : R <> [] ->
  exists x, In x R /\ latest_value (map oval R) (map octx R) = oval x
            /\ forall y, In y R -> octx y <= octx x.
Proof.
  intros Hne. destruct R as [|x0 R']; [congruence|]. unfold latest_value.
  destruct (max_ctx_index_spec (map octx (x0 :: R')) 0 0 0) as [[Hr Hle]|(Hr & _ & Hle)].
  - exists x0. rewrite Hr. split; [left; reflexivity|]. split; [reflexivity|].
    intros y Hy. assert (octx y <= 0) by (apply Hle, in_map, Hy). lia.
  - set (i := max_ctx_index (map octx (x0 :: R')) 0 0 0) in *.
    rewrite Nat.sub_0_r in Hle. rewrite map_length in Hr.
    exists (nth i (x0 :: R') x0). split; [apply nth_In; lia|]. split.
    + rewrite (nth_indep _ None (oval x0)) by (rewrite map_length; lia). apply map_nth.
    + intros y Hy. rewrite <- (map_nth octx). rewrite (nth_indep _ (octx x0) 0) by (rewrite map_length; lia).
      apply Hle, in_map, Hy.
Qed.

Lemma t_get_in k v (t : table) : t_get k t = Some v -> In (k, v) t.
Proof.
  induction t as [|[k' v'] r IH]; simpl; [discriminate|].
  destruct (beqb k k') eqn:E.
  - apply beqb_true in E. subst k'. intros H. inversion H. left. reflexivity.
  - intros H. right. apply IH, H.
Qed.

Lemma in_t_get k v (t : table) : tsorted t -> In (k, v) t -> t_get k t = Some v.
Proof.
  induction t as [|[k' v'] r IH]; intros Hs Hin; [contradiction|].
  apply (ksorted_inv (k', v') r) in Hs. destruct Hs as [Hs Ha]. simpl in Ha. simpl.
  destruct Hin as [Heq|Hin].
  - inversion Heq; subst. rewrite beqb_refl. reflexivity.
  - assert (Hlt : bcmp k' k = Lt).
    { unfold above in Ha. rewrite Forall_forall in Ha. apply (Ha (k, v) Hin). }
    rewrite (beqb_gt _ _ Hlt). apply IH; assumption.
Qed.

Definition keyis (k : bytes) (x : hout) : bool := beqb (okey x) k.

Lemma run_value (tables : list table) outs k :
  Forall tsorted tables -> outs_spec tables outs ->
  match filter (keyis k) outs with
  | [] => newest_value k (rev tables) = None
  | R => newest_value k (rev tables) = Some (latest_value (map oval R) (map octx R))
  end.
Proof.
  intros Hs Hspec.
  assert (Hmem : forall c t v, In (c, t) (ntables tables) -> t_get k t = Some v ->
                               In (k, v, c) (filter (keyis k) outs)).
  { intros c t v Hin Hg. apply filter_In. split.
    - eapply (os_complete _ _ Hspec); [exact Hin|]. apply t_get_in, Hg.
    - unfold keyis, okey. simpl. apply beqb_refl. }
  destruct (filter (keyis k) outs) as [|x0 R'] eqn:ER.
  - apply (newest_none k tables 0). intros c t Hin.
    destruct (t_get k t) as [v|] eqn:Hg; [|reflexivity].
    destruct (Hmem c t v Hin Hg).
  - cbv beta iota. rewrite <- ER in *. assert (Hne : filter (keyis k) outs <> []) by (rewrite ER; discriminate).
    cbv zeta. destruct (latest_in _ Hne) as (x & Hx & -> & Hmax).
    pose proof Hx as Hx'. apply filter_In in Hx'. destruct Hx' as [Hxo Hk].
    unfold keyis in Hk. apply beqb_true in Hk.
    destruct (os_sound _ _ Hspec x Hxo) as (t & Hin & Hkv). rewrite Hk in Hkv.
    assert (Hst : tsorted t).
    { rewrite Forall_forall in Hs. apply Hs. eapply number_from_in, Hin. }
    apply (newest_some k (oval x) tables 0 (octx x) t Hin).
    + apply in_t_get; assumption.
    + intros c t' Hin' Hlt. destruct (t_get k t') as [v|] eqn:Hg; [|reflexivity].
      pose proof (Hmax _ (Hmem c t' v Hin' Hg)) as Hle. unfold octx in Hle at 1. simpl in Hle. lia.
Qed.

(* ---------- the emitted list as a sorted association list ---------- *)
Definition reduce_f (f : mval -> option bytes) : reduce_fn :=
  fun k vals ctxs => match f (latest_value vals ctxs) with Some v => Some (k, v) | None => None end.

Definition runval (f : mval -> option bytes) (R : list hout) : option bytes :=
  match R with [] => None | _ => f (latest_value (map oval R) (map octx R)) end.

Lemma runval_ne f R : R <> [] -> runval f R = f (latest_value (map oval R) (map octx R)).
Proof. destruct R; [congruence|reflexivity]. Qed.

Lemma filter_keyis_above p (l : list hout) :
  (forall y, In y l -> bcmp p (okey y) = Lt) -> filter (keyis p) l = [].
Proof.
  induction l as [|y r IH]; intros H; simpl; [reflexivity|].
  unfold keyis at 1. rewrite (beqb_gt _ _ (H y (or_introl eq_refl))).
  apply IH. intros z Hz. apply H. right. exact Hz.
Qed.

Lemma out_nondesc_inv (x : hout) r : out_nondesc bcmp (x :: r) ->
  out_nondesc bcmp r /\ forall y, In y r -> bcmp (okey x) (okey y) <> Gt.
Proof.
  intros H. apply StronglySorted_inv in H. destruct H as [H1 H2]. split; [exact H1|].
  rewrite Forall_forall in H2. exact H2.
Qed.

Lemma lt_of_le_ne p k : bcmp p k <> Gt -> beqb k p = false -> bcmp p k = Lt.
Proof.
  intros Hle Hne. destruct (bcmp p k) eqn:E; [|reflexivity|congruence].
  apply bcmp_eq in E. subst k. rewrite beqb_refl in Hne. discriminate.
Qed.

Lemma group_get f outs : forall run p k',
  run <> [] -> (forall x, In x outs -> bcmp p (okey x) <> Gt) -> out_nondesc bcmp outs ->
  aget k' (group (reduce_f f) (Some p) (map oval run) (map octx run) outs)
  = if beqb k' p then runval f (run ++ filter (keyis p) outs) else runval f (filter (keyis k') outs).
Proof.
  induction outs as [|[[k v] c] r IH]; intros run p k' Hne Hge Hs.
  - cbn [group filter pkey]. rewrite app_nil_r. rewrite (runval_ne f run Hne).
    destruct run as [|x0 run']; [congruence|]. cbn [map]. unfold reduce_f.
    change (oval x0 :: map oval run') with (map oval (x0 :: run')).
    change (octx x0 :: map octx run') with (map octx (x0 :: run')).
    destruct (f (latest_value (map oval (x0 :: run')) (map octx (x0 :: run')))) as [v0|]; simpl.
    + destruct (beqb k' p); reflexivity.
    + destruct (beqb k' p); reflexivity.
  - apply out_nondesc_inv in Hs. destruct Hs as [Hs Hk]. unfold okey in Hk at 1. simpl in Hk.
    pose proof (Hge _ (or_introl eq_refl)) as Hpk. unfold okey in Hpk. simpl in Hpk.
    cbn [group pkey]. destruct (beqb k p) eqn:Ekp; cbn [negb].
    + apply beqb_true in Ekp. subst k.
      replace (map oval run ++ [v]) with (map oval (run ++ [(p, v, c)])) by (rewrite map_app; reflexivity).
      replace (map octx run ++ [c]) with (map octx (run ++ [(p, v, c)])) by (rewrite map_app; reflexivity).
      rewrite IH.
      * cbn [filter]. change (keyis p (p, v, c)) with (beqb p p).
        change (keyis k' (p, v, c)) with (beqb p k').
        rewrite beqb_refl. rewrite <- app_assoc. cbn [app].
        destruct (beqb k' p) eqn:Ek'; [reflexivity|].
        rewrite beqb_sym, Ek'. reflexivity.
      * intros Habs. apply app_eq_nil in Habs. destruct Habs as [_ Habs]. discriminate.
      * intros x Hx. apply Hge. right. exact Hx.
      * exact Hs.
    + assert (Hlt : bcmp p k = Lt) by (apply lt_of_le_ne; assumption).
      assert (Hnil : filter (keyis p) ((k, v, c) :: r) = []).
      { apply filter_keyis_above. intros y [<-|Hy]; [exact Hlt|].
        eapply (cmp_lt_le_trans bcmp bcmp_laws); [exact Hlt|apply Hk, Hy]. }
      rewrite Hnil, app_nil_r. rewrite (runval_ne f run Hne).
      assert (IH' : aget k' (group (reduce_f f) (Some k) [v] [c] r)
                    = runval f (if beqb k k' then (k, v, c) :: filter (keyis k') r
                                else filter (keyis k') r)).
      { change [v] with (map oval [(k, v, c)]). change [c] with (map octx [(k, v, c)]).
        rewrite (IH [(k, v, c)] k k') by (try discriminate; assumption).
        rewrite (beqb_sym k k'). destruct (beqb k' k) eqn:Ek; [|reflexivity].
        apply beqb_true in Ek. subst k'. reflexivity. }
      cbn [filter]. change (keyis k' (k, v, c)) with (beqb k k').
      unfold reduce_f at 1.
      destruct (f (latest_value (map oval run) (map octx run))) as [v0|] eqn:Ef.
      * cbn [aget]. destruct (beqb k' p) eqn:Ek'; [reflexivity|exact IH'].
      * destruct (beqb k' p) eqn:Ek'; [|exact IH'].
        apply beqb_true in Ek'. subst k'. rewrite IH'.
        rewrite (beqb_gt _ _ Hlt).
        assert (Hnil' : filter (keyis p) r = []).
        { cbn [filter] in Hnil. change (keyis p (k, v, c)) with (beqb k p) in Hnil.
          rewrite Ekp in Hnil. exact Hnil. }
        rewrite Hnil'. reflexivity.
Qed.

Definition atleast {A} (p : bytes) (l : list (bytes * A)) : Prop :=
  Forall (fun kv => bcmp p (fst kv) <> Gt) l.

Lemma atleast_above {A} p k (l : list (bytes * A)) : bcmp p k = Lt -> atleast k l -> above p l.
Proof.
  intros Hlt H. unfold atleast, above in *. eapply Forall_impl; [|exact H].
  intros x Hx. simpl in Hx. eapply (cmp_lt_le_trans bcmp bcmp_laws); eassumption.
Qed.

Lemma above_atleast {A} p (l : list (bytes * A)) : above p l -> atleast p l.
Proof.
  intros H. unfold atleast, above in *. eapply Forall_impl; [|exact H].
  intros x Hx. simpl in Hx. rewrite Hx. discriminate.
Qed.

Lemma group_sorted f outs : forall run p,
  run <> [] -> (forall x, In x outs -> bcmp p (okey x) <> Gt) -> out_nondesc bcmp outs ->
  ksorted (group (reduce_f f) (Some p) (map oval run) (map octx run) outs)
  /\ atleast p (group (reduce_f f) (Some p) (map oval run) (map octx run) outs).
Proof.
  induction outs as [|[[k v] c] r IH]; intros run p Hne Hge Hs.
  - cbn [group pkey]. destruct (map oval run); [split; constructor|].
    unfold reduce_f. destruct (f (latest_value (m :: l) (map octx run))); [|split; constructor].
    split; [constructor; constructor|]. constructor; [|constructor]. simpl.
    rewrite bcmp_refl. discriminate.
  - apply out_nondesc_inv in Hs. destruct Hs as [Hs Hk]. unfold okey in Hk at 1. simpl in Hk.
    pose proof (Hge _ (or_introl eq_refl)) as Hpk. unfold okey in Hpk. simpl in Hpk.
    cbn [group pkey]. destruct (beqb k p) eqn:Ekp; cbn [negb].
    + apply beqb_true in Ekp. subst k.
      replace (map oval run ++ [v]) with (map oval (run ++ [(p, v, c)])) by (rewrite map_app; reflexivity).
      replace (map octx run ++ [c]) with (map octx (run ++ [(p, v, c)])) by (rewrite map_app; reflexivity).
      apply IH.
      * intros Habs. apply app_eq_nil in Habs. destruct Habs as [_ Habs]. discriminate.
      * intros x Hx. apply Hge. right. exact Hx.
      * exact Hs.
    + assert (Hlt : bcmp p k = Lt) by (apply lt_of_le_ne; assumption).
      destruct (IH [(k, v, c)] k) as [IHs IHa]; [discriminate|exact Hk|exact Hs|].
      cbn [map] in IHs, IHa. change (oval (k, v, c)) with v in *. change (octx (k, v, c)) with c in *.
      assert (Hab : above p (group (reduce_f f) (Some k) [v] [c] r))
        by (eapply atleast_above; eassumption).
      assert (He : reduce_f f p (map oval run) (map octx run)
                   = match f (latest_value (map oval run) (map octx run)) with
                     | Some v0 => Some (p, v0) | None => None end) by reflexivity.
      rewrite He. clear He.
      destruct (f (latest_value (map oval run) (map octx run))) as [v0|].
      * split.
        -- apply (ksorted_cons (p, v0)); assumption.
        -- constructor; [simpl; rewrite bcmp_refl; discriminate|apply above_atleast, Hab].
      * split; [exact IHs|apply above_atleast, Hab].
Qed.

Lemma group_start reduce x r :
  group reduce None [] [] (x :: r) = group reduce (Some (okey x)) (map oval [x]) (map octx [x]) r.
Proof. destruct x as [[k v] c]. reflexivity. Qed.

Lemma group0_get f outs k : out_nondesc bcmp outs ->
  aget k (group (reduce_f f) None [] [] outs) = runval f (filter (keyis k) outs).
Proof.
  intros Hs. destruct outs as [|x r]; [reflexivity|]. rewrite group_start.
  apply out_nondesc_inv in Hs. destruct Hs as [Hs Hk].
  rewrite group_get by (try discriminate; assumption).
  cbn [filter]. unfold keyis at 3. rewrite (beqb_sym (okey x) k).
  destruct (beqb k (okey x)) eqn:E; [|reflexivity]. apply beqb_true in E. subst k. reflexivity.
Qed.

Lemma group0_sorted f outs : out_nondesc bcmp outs -> ksorted (group (reduce_f f) None [] [] outs).
Proof.
  intros Hs. destruct outs as [|x r]; [constructor|]. rewrite group_start.
  apply out_nondesc_inv in Hs. destruct Hs as [Hs Hk].
  apply group_sorted; (try discriminate; assumption).
Qed.

(* ---------- the live part of a table ---------- *)
Definition live_f (f : mval -> option bytes) (l : table) : list (bytes * bytes) :=
  flat_map (fun kv => match f (snd kv) with Some v => [(fst kv, v)] | None => [] end) l.

Lemma live_f_above f a (l : table) : above a l -> above a (live_f f l).
Proof.
  induction l as [|[k mv] r IH]; intros Ha; simpl; [constructor|].
  pose proof (Forall_inv Ha) as H1. apply Forall_inv_tail in Ha.
  destruct (f mv); simpl; [constructor; [exact H1|]|]; apply IH, Ha.
Qed.

Lemma live_f_sorted f (l : table) : tsorted l -> ksorted (live_f f l).
Proof.
  induction l as [|[k mv] r IH]; intros Hs; simpl; [constructor|].
  apply (ksorted_inv (k, mv) r) in Hs. destruct Hs as [Hs Ha].
  destruct (f mv) as [v|]; simpl; [|apply IH, Hs].
  apply (ksorted_cons (k, v)); [apply IH, Hs|apply live_f_above, Ha].
Qed.

Lemma live_f_get f k (l : table) : tsorted l ->
  aget k (live_f f l) = match t_get k l with Some mv => f mv | None => None end.
Proof.
  induction l as [|[k1 mv] r IH]; intros Hs; simpl; [reflexivity|].
  apply (ksorted_inv (k1, mv) r) in Hs. destruct Hs as [Hs Ha]. simpl in Ha.
  destruct (beqb k k1) eqn:E.
  - apply beqb_true in E. subst k1. destruct (f mv) as [v|]; simpl.
    + rewrite beqb_refl. reflexivity.
    + apply aget_above, live_f_above, Ha.
  - destruct (f mv) as [v|]; simpl; [rewrite E|]; apply IH, Hs.
Qed.

(* ---------- the compacting merge, for any reduction that maps the newest value ---------- *)
Lemma scan_merged_f f (tables : list table) :
  Forall tsorted tables ->
  scan_merged (reduce_f f) (map as_stream tables) = (live_f f (union_latest tables), None).
Proof.
  intros Hs. destruct (heap_consumers tables Hs) as (outs & Hspec & Hscan & _).
  rewrite Hscan. f_equal.
  pose proof (union_latest_sorted tables Hs) as Hu.
  apply aget_ext.
  - apply group0_sorted, (os_sorted _ _ Hspec).
  - apply live_f_sorted, Hu.
  - intros k. rewrite (group0_get f outs k (os_sorted _ _ Hspec)).
    rewrite (live_f_get f k _ Hu), (union_latest_get tables k Hs).
    pose proof (run_value tables outs k Hs Hspec) as Hv.
    destruct (filter (keyis k) outs) as [|x0 R'].
    + rewrite Hv. reflexivity.
    + rewrite Hv. reflexivity.
Qed.

Lemma scan_merged_ext r1 r2 (tables : list table) :
  Forall tsorted tables -> (forall k vs cs, r1 k vs cs = r2 k vs cs) ->
  scan_merged r1 (map as_stream tables) = scan_merged r2 (map as_stream tables).
Proof.
  intros Hs He. destruct (heap_consumers tables Hs) as (outs & _ & Hscan & _).
  rewrite !Hscan. f_equal. apply group_ext, He.
Qed.

(* C08: the compacting merge with "latest wins" = the live part of the union: ascending, each key
   once, newest value, tombstoned keys omitted; no error *)
Theorem merge_compact_latest_wins (tables : list table) :
  Forall tsorted tables ->
  scan_merged reduce_latest_wins (map as_stream tables) = (live (union_latest tables), None).
Proof.
  intros Hs. change reduce_latest_wins with (reduce_f (fun mv => mv)).
  rewrite (scan_merged_f _ tables Hs). reflexivity.
Qed.

Definition drop_empty (mv : mval) : option bytes :=
  match mv with Some [] => None | Some v => Some v | None => None end.

Theorem merge_compact_skip_tombstones (tables : list table) :
  Forall tsorted tables ->
  scan_merged reduce_latest_wins_skip_tombstones (map as_stream tables) = (live_nonempty (union_latest tables), None).
Proof.
  intros Hs. rewrite (scan_merged_ext _ (reduce_f drop_empty) tables Hs).
  - rewrite (scan_merged_f _ tables Hs). f_equal. unfold live_f, live_nonempty.
    apply flat_map_ext. intros [k [[|b v]|]]; reflexivity.
  - intros k vs cs. unfold reduce_latest_wins_skip_tombstones, reduce_f, drop_empty.
    destruct (latest_value vs cs) as [[|b v]|]; reflexivity.
Qed.

(* no value is ever attributed to a different key (including the empty key) *)
Lemma t_set_in x k v (l : table) : In x (t_set k v l) -> (k, v) = x \/ In x l.
Proof.
  induction l as [|[k' v'] r IH]; simpl; [tauto|].
  destruct (bcmp k k'); simpl; [tauto|tauto|].
  intros [H|H]; [tauto|]. apply IH in H. tauto.
Qed.

Lemma overlay_in x (newer : table) : forall base, In x (overlay base newer) -> In x base \/ In x newer.
Proof.
  unfold overlay. induction newer as [|[k v] r IH]; intros base H; simpl in *; [tauto|].
  apply IH in H. destruct H as [H|H]; [|tauto]. apply t_set_in in H. tauto.
Qed.

Lemma fold_overlay_in x (tables : list table) : forall acc,
  In x (fold_left overlay tables acc) -> In x acc \/ exists t, In t tables /\ In x t.
Proof.
  induction tables as [|t ts IH]; intros acc H; simpl in *; [tauto|].
  apply IH in H. destruct H as [H|(t' & Ht & Hx)].
  - apply overlay_in in H. destruct H as [H|H]; [tauto|]. right. exists t. tauto.
  - right. exists t'. tauto.
Qed.

Lemma live_in k v (l : table) : In (k, v) (live l) -> In (k, Some v) l.
Proof.
  unfold live. intros H. apply in_flat_map in H. destruct H as ([k' [v'|]] & Hin & H); simpl in H.
  - destruct H as [H|[]]. inversion H; subst. exact Hin.
  - contradiction.
Qed.

Corollary no_cross_attribution (tables : list table) k v :
  Forall tsorted tables ->
  In (k, v) (fst (scan_merged reduce_latest_wins (map as_stream tables))) ->
  exists t, In t tables /\ In (k, Some v) t.
Proof.
  intros Hs. rewrite (merge_compact_latest_wins tables Hs). simpl. intros H.
  apply live_in in H. apply fold_overlay_in in H. destruct H as [[]|H]. exact H.
Qed.

(* C11: MergeCompact is exactly "feed the merged sequence to the writer and stop at its first
   error": a failed write is reported, and success means the writer received the complete output *)
Theorem merge_compact_is_feed {St} (reduce : reduce_fn) (w : sink St) (tables : list table) (s : St) :
  Forall tsorted tables ->
  merge_compact reduce w (map as_stream tables) s
  = feed w s (map (fun kv => (fst kv, Some (snd kv))) (fst (scan_merged reduce (map as_stream tables)))).
Proof.
  intros Hs. destruct (heap_consumers tables Hs) as (outs & _ & Hscan & _).
  specialize (Hscan reduce). unfold merge_compact. unfold scan_merged in *.
  destruct (mci_init (map as_stream tables)) as [m|e]; [|discriminate].
  apply merge_compact_drain_feed. rewrite Hscan. reflexivity.
Qed.

(* ---------- plain Merge over tables with pairwise disjoint keys ---------- *)
Definition disjoint_keys (tables : list table) : Prop :=
  NoDup (flat_map (fun t => map fst t) tables).

Lemma aget_in {A} k (v : A) (l : list (bytes * A)) : aget k l = Some v -> In (k, v) l.
Proof.
  induction l as [|[k' v'] r IH]; simpl; [discriminate|].
  destruct (beqb k k') eqn:E.
  - apply beqb_true in E. subst k'. intros H. inversion H. left. reflexivity.
  - intros H. right. apply IH, H.
Qed.

Lemma in_aget {A} k (v : A) (l : list (bytes * A)) : ksorted l -> In (k, v) l -> aget k l = Some v.
Proof.
  induction l as [|[k' v'] r IH]; intros Hs Hin; [contradiction|].
  apply ksorted_inv in Hs. destruct Hs as [Hs Ha]. simpl in Ha. simpl.
  destruct Hin as [Heq|Hin].
  - inversion Heq; subst. rewrite beqb_refl. reflexivity.
  - assert (Hlt : bcmp k' k = Lt).
    { unfold above in Ha. rewrite Forall_forall in Ha. apply (Ha (k, v) Hin). }
    rewrite (beqb_gt _ _ Hlt). apply IH; assumption.
Qed.

Lemma nodup_app_disjoint {A} (l1 l2 : list A) :
  NoDup (l1 ++ l2) -> NoDup l2 /\ forall x, In x l1 -> ~ In x l2.
Proof.
  induction l1 as [|a r IH]; simpl; intros H; [split; [exact H|intros x []]|].
  apply NoDup_cons_iff in H. destruct H as [Hni H]. apply IH in H. destruct H as [H2 Hd].
  split; [exact H2|]. intros x [<-|Hx]; [|apply Hd, Hx].
  intros Hin. apply Hni. apply in_or_app. right. exact Hin.
Qed.

Lemma disjoint_same_ctx k (tables : list table) : forall i c1 t1 c2 t2,
  disjoint_keys tables ->
  In (c1, t1) (number_from i tables) -> In (c2, t2) (number_from i tables) ->
  In k (map fst t1) -> In k (map fst t2) -> c1 = c2.
Proof.
  unfold disjoint_keys.
  induction tables as [|t0 ts IH]; intros i c1 t1 c2 t2 Hd H1 H2 K1 K2; simpl in H1, H2; [contradiction|].
  simpl in Hd. apply nodup_app_disjoint in Hd. destruct Hd as [Hd Hx].
  assert (Hin : forall c t, In (c, t) (number_from (i + 1) ts) -> In k (map fst t) ->
                            In k (flat_map (fun t => map fst t) ts)).
  { intros c t Hc Hk. apply in_flat_map. exists t. split; [eapply number_from_in, Hc|exact Hk]. }
  destruct H1 as [E1|H1]; destruct H2 as [E2|H2].
  - inversion E1; inversion E2; subst. reflexivity.
  - inversion E1; subst. exfalso. apply (Hx k K1). eapply Hin; eassumption.
  - inversion E2; subst. exfalso. apply (Hx k K2). eapply Hin; eassumption.
  - eapply (IH (i + 1)); eassumption.
Qed.

Lemma of_ctx_tail_sorted c (x : bytes * mval * N) r :
  ksorted (of_ctx c (x :: r)) -> ksorted (of_ctx c r).
Proof.
  intros H. destruct (N.eq_dec (snd x) c) as [E|E].
  - rewrite (of_ctx_cons_eq c x r E) in H. apply ksorted_inv in H. apply H.
  - rewrite (of_ctx_cons_ne c x r E) in H. exact H.
Qed.

Lemma outs_strict (outs : list (bytes * mval * N)) :
  out_nondesc bcmp outs ->
  (forall x, In x outs -> ksorted (of_ctx (octx x) outs)) ->
  (forall x y, In x outs -> In y outs -> okey x = okey y -> octx x = octx y) ->
  ksorted (map fst outs).
Proof.
  induction outs as [|x r IH]; intros Hs Hc Hd; simpl; [constructor|].
  apply out_nondesc_inv in Hs. destruct Hs as [Hs Hk].
  apply ksorted_cons.
  - apply IH; [exact Hs| |].
    + intros y Hy. eapply of_ctx_tail_sorted. apply Hc. right. exact Hy.
    + intros y z Hy Hz. apply Hd; right; assumption.
  - unfold above. apply Forall_forall. intros kv Hkv. apply in_map_iff in Hkv.
    destruct Hkv as (y & <- & Hy). pose proof (Hk y Hy) as Hle. unfold okey in Hle.
    destruct (bcmp (fst (fst x)) (fst (fst y))) eqn:E; [|reflexivity|congruence]. exfalso.
    apply bcmp_eq in E.
    assert (Hcc : octx x = octx y) by (apply Hd; [left; reflexivity|right; exact Hy|exact E]).
    pose proof (Hc x (or_introl eq_refl)) as Hsx.
    rewrite (of_ctx_cons_eq (octx x) x r eq_refl) in Hsx. apply ksorted_inv in Hsx.
    destruct Hsx as [_ Ha]. unfold above in Ha. rewrite Forall_forall in Ha.
    assert (Hin : In (fst y) (of_ctx (octx x) r)) by (rewrite Hcc; apply in_of_ctx, Hy).
    apply Ha in Hin. rewrite E, bcmp_refl in Hin. discriminate.
Qed.

Theorem merge_disjoint_union {St} (w : sink St) (tables : list table) (s : St) :
  Forall tsorted tables -> disjoint_keys tables ->
  merge w (map as_stream tables) s = feed w s (union_latest tables).
Proof.
  intros Hs Hd. destruct (heap_consumers tables Hs) as (outs & Hspec & _ & Hm).
  rewrite Hm. f_equal.
  assert (Hsame : forall x y, In x outs -> In y outs -> okey x = okey y -> octx x = octx y).
  { intros x y Hx Hy Hk.
    destruct (os_sound _ _ Hspec x Hx) as (tx & Hcx & Hkx).
    destruct (os_sound _ _ Hspec y Hy) as (ty & Hcy & Hky).
    apply (disjoint_same_ctx (okey x) tables 0 (octx x) tx (octx y) ty Hd Hcx Hcy).
    - apply (in_map fst) in Hkx. exact Hkx.
    - apply (in_map fst) in Hky. rewrite Hk. exact Hky. }
  assert (Hsorted : ksorted (map fst outs)).
  { apply outs_strict; [apply (os_sorted _ _ Hspec)| |exact Hsame].
    intros x Hx. destruct (os_sound _ _ Hspec x Hx) as (t & Hc & _).
    rewrite (os_of_ctx _ _ Hspec _ _ Hc). rewrite Forall_forall in Hs. apply Hs.
    eapply number_from_in, Hc. }
  apply aget_ext; [exact Hsorted|apply (union_latest_sorted tables Hs)|].
  intros k. rewrite <- (t_get_aget k (union_latest tables)), (union_latest_get tables k Hs). symmetry.
  destruct (aget k (map fst outs)) as [v|] eqn:Eg.
  - apply aget_in in Eg. apply in_map_iff in Eg. destruct Eg as ([[k' v'] c] & Heq & Hx).
    simpl in Heq. inversion Heq; subst k' v'.
    destruct (os_sound _ _ Hspec _ Hx) as (t & Hc & Hkv).
    change (octx (k, v, c)) with c in Hc. change (okey (k, v, c), oval (k, v, c)) with (k, v) in Hkv.
    assert (Hst : tsorted t) by (rewrite Forall_forall in Hs; apply Hs; eapply number_from_in, Hc).
    apply (newest_some k v tables 0 c t Hc (in_t_get k v t Hst Hkv)).
    intros c' t' Hc' Hlt. destruct (t_get k t') as [v'|] eqn:Hg; [|reflexivity]. exfalso.
    apply t_get_in in Hg.
    assert (c = c'); [|lia].
    apply (disjoint_same_ctx k tables 0 c t c' t' Hd Hc Hc').
    + apply (in_map fst) in Hkv. exact Hkv.
    + apply (in_map fst) in Hg. exact Hg.
  - apply (newest_none k tables 0). intros c t Hc.
    destruct (t_get k t) as [v|] eqn:Hg; [|reflexivity]. exfalso.
    apply t_get_in in Hg. pose proof (os_complete _ _ Hspec c t k v Hc Hg) as Hx.
    apply (in_map fst) in Hx. simpl in Hx. apply (in_aget k v _ Hsorted) in Hx. congruence.
Qed.

(* ---------- an input that fails ---------- *)
Definition doomed (h : @heap bytes mval) : Prop := forall n, exists e, drain_heap bcmp n h = Err e.

Lemma doomed_next h x h' : doomed h -> next bcmp h = Ok (Some x, h') -> doomed h'.
Proof.
  intros Hd Hn n. destruct (Hd (S n)) as [e He]. simpl in He. rewrite Hn in He.
  destruct (drain_heap bcmp n h') as [l|e']; [discriminate|]. exists e'. reflexivity.
Qed.

Lemma doomed_not_done h h' : doomed h -> next bcmp h = Ok (None, h') -> False.
Proof. intros Hd Hn. destruct (Hd 1%nat) as [e He]. simpl in He. rewrite Hn in He. discriminate. Qed.

Lemma merge_drain_doomed {St} (w : sink St) fuel : forall h s,
  doomed h -> exists e, snd (merge_drain fuel w h s) = Err e.
Proof.
  induction fuel as [|f IH]; intros h s Hd; [exists OutOfFuel; reflexivity|]. simpl.
  destruct (next bcmp h) as [[[[[k v] c]|] h']|e] eqn:Hn.
  - destruct (w s k v) as [s' [u|e]]; [|exists e; reflexivity].
    apply IH. eapply doomed_next; eassumption.
  - exfalso. eapply doomed_not_done; eassumption.
  - exists e. reflexivity.
Qed.

Lemma mci_next_doomed reduce fuel : forall m,
  doomed (m_heap m) ->
  (exists e, mci_next fuel reduce m = Err e)
  \/ (exists kv m', mci_next fuel reduce m = Ok (Some kv, m') /\ doomed (m_heap m')).
Proof.
  induction fuel as [|f IH]; intros m Hd; [left; exists OutOfFuel; reflexivity|].
  cbn [mci_next]. destruct (next bcmp (m_heap m)) as [[[[[k v] c]|] h']|e] eqn:Hn.
  - pose proof (doomed_next _ _ _ Hd Hn) as Hd'.
    destruct (if match m_prev m with Some p => negb (beqb k p) | None => false end
              then reduce match m_prev m with Some p => p | None => [] end (m_vals m) (m_ctxs m)
              else None) as [kv|].
    + right. eexists; eexists. split; [reflexivity|exact Hd'].
    + apply IH. exact Hd'.
  - exfalso. eapply doomed_not_done; eassumption.
  - left. exists e. reflexivity.
Qed.

Lemma merge_compact_drain_doomed {St} reduce (w : sink St) fuel : forall m s,
  doomed (m_heap m) -> exists e, snd (merge_compact_drain fuel reduce w m s) = Err e.
Proof.
  induction fuel as [|f IH]; intros m s Hd; [exists OutOfFuel; reflexivity|].
  cbn [merge_compact_drain].
  destruct (mci_next_doomed reduce (S f) m Hd) as [[e He]|([k v] & m' & Hm & Hd')]; rewrite ?He, ?Hm.
  - exists e. reflexivity.
  - destruct (w s k (Some v)) as [s' [u|e]]; [|exists e; reflexivity]. apply IH, Hd'.
Qed.

Lemma number_from_has {A} (x : A) l : forall i, In x l -> exists c, In (c, x) (number_from i l).
Proof.
  induction l as [|y r IH]; intros i Hin; [contradiction|]. destruct Hin as [->|Hin].
  - exists i. left. reflexivity.
  - destruct (IH (i + 1) Hin) as [c Hc]. exists c. right. exact Hc.
Qed.

(* an input that fails makes both merges fail, whatever the writer does *)
Theorem merge_reports_input_fault {St} (w : sink St) (inputs : list mstream) (s : St) :
  (exists i e, In i inputs /\ In (Err e) i) ->
  (exists e, snd (merge w inputs s) = Err e)
  /\ (forall reduce, exists e, snd (merge_compact reduce w inputs s) = Err e).
Proof.
  intros (i & e & Hi & He).
  assert (Hbad : bad_its (number inputs)).
  { rewrite number_is_from. destruct (number_from_has i inputs 0 Hi) as [c Hc].
    exists c, i, e. split; assumption. }
  unfold merge, merge_compact, mci_init, init.
  destruct (init_from_err bcmp (number inputs) [] (or_intror Hbad))
    as [[e0 He0]|(hf & Hf & Hhf)].
  - rewrite He0. split; [|intros reduce]; exists e0; reflexivity.
  - rewrite Hf. assert (Hd : doomed hf) by (intros n; apply (drain_err bcmp), Hhf).
    split; [apply merge_drain_doomed, Hd|]. intros reduce. apply merge_compact_drain_doomed. exact Hd.
Qed.

(* non-vacuity: the empty key, a tombstone over a live value and vice versa, an empty table *)
Example merge_example :
  let t0 : table := [([], Some [1]); ([5], Some [50]); ([7], None)] in
  let t1 : table := [] in
  let t2 : table := [([5], None); ([7], Some [77]); ([9], Some [])] in
  scan_merged reduce_latest_wins (map as_stream [t0; t1; t2]) = ([([], [1]); ([7], [77]); ([9], [])], None)
  /\ scan_merged reduce_latest_wins_skip_tombstones (map as_stream [t0; t1; t2]) = ([([], [1]); ([7], [77])], None)
  /\ union_latest [t0; t1; t2] = [([], Some [1]); ([5], None); ([7], Some [77]); ([9], Some [])].
Proof. vm_compute. repeat split. Qed.

Print Assumptions union_latest_sorted.
Print Assumptions union_latest_get.
Print Assumptions merge_compact_latest_wins.
Print Assumptions merge_compact_skip_tombstones.
Print Assumptions no_cross_attribution.
Print Assumptions merge_compact_is_feed.
Print Assumptions merge_disjoint_union.
Print Assumptions merge_reports_input_fault.
Print Assumptions merge_example.
