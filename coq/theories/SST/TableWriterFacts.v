(* C15: whatever sequence of keys is offered and whichever calls fail at the data or index append,
   the closed table holds exactly the accepted pairs, strictly ascending, and its metadata is
   truthful. *)
From GoSST Require Import Base.Bytes Base.Order Base.Crc Base.ProtoWire.
From GoSST Require Import RecordIO.Format RecordIO.FormatFacts RecordIO.Writer RecordIO.WriteReadFacts.
From GoSST Require Import SST.TableWriter.
From Coq Require Import Lia Sorting.Sorted.
Local Open Scope N_scope.

Definition call := (tw_fault * bytes * option bytes)%type.

(* specification: which calls are accepted, by the property's own rule - a key must be strictly
   greater than the last ACCEPTED key; a call with an injected append failure is never accepted *)
Fixpoint spec_run (calls : list call) (last : option bytes) : list (res unit) * list (bytes * option bytes) :=
  match calls with
  | [] => ([], [])
  | (f, k, v) :: rest =>
      let too_small := match last with Some l => match bcmp l k with Lt => false | _ => true end | None => false end in
      if too_small then let '(rs, acc) := spec_run rest last in (Err Rejected :: rs, acc)
      else match f with
           | NoFault => let '(rs, acc) := spec_run rest (Some k) in (Ok tt :: rs, (k, v) :: acc)
           | _ => let '(rs, acc) := spec_run rest last in (Err Other :: rs, acc)
           end
  end.

Definition accepted (calls : list call) : list (bytes * option bytes) := snd (spec_run calls None).

(* the key check of the specification (and, literally, of the code) *)
Definition too_small (last : option bytes) (k : bytes) : bool :=
  match last with Some l => match bcmp l k with Lt => false | _ => true end | None => false end.

Lemma too_small_false last k :
  too_small last k = false -> match last with Some l => bcmp l k = Lt | None => True end.
Proof.
  unfold too_small. destruct last as [l|]; [|intros _; exact I].
  destruct (bcmp l k); intros H; try discriminate H; reflexivity.
Qed.

Lemma spec_run_cons f k v rest last :
  spec_run ((f, k, v) :: rest) last =
  if too_small last k then (Err Rejected :: fst (spec_run rest last), snd (spec_run rest last))
  else match f with
       | NoFault => (Ok tt :: fst (spec_run rest (Some k)), (k, v) :: snd (spec_run rest (Some k)))
       | _ => (Err Other :: fst (spec_run rest last), snd (spec_run rest last))
       end.
Proof.
  cbn [spec_run]. fold (too_small last k).
  destruct (too_small last k); [destruct (spec_run rest last); reflexivity|].
  destruct f; [destruct (spec_run rest (Some k))|destruct (spec_run rest last)|destruct (spec_run rest last)];
    reflexivity.
Qed.

Definition above (last : option bytes) (kv : bytes * option bytes) : Prop :=
  match last with Some l => bcmp l (fst kv) = Lt | None => True end.

Lemma spec_run_sorted calls : forall last,
  StronglySorted (fun a b => bcmp (fst a) (fst b) = Lt) (snd (spec_run calls last))
  /\ Forall (above last) (snd (spec_run calls last)).
Proof.
  induction calls as [|[[f k] v] rest IH]; intros last.
  - cbn. split; constructor.
  - rewrite spec_run_cons.
    destruct (too_small last k) eqn:Ets; [apply IH|].
    destruct f; cbn [snd]; try apply IH.
    destruct (IH (Some k)) as [Hs Hf]. apply too_small_false in Ets.
    split.
    + constructor; [exact Hs|exact Hf].
    + constructor.
      * destruct last as [l|]; [exact Ets|exact I].
      * destruct last as [l|]; [|apply Forall_forall; intros x _; exact I].
        eapply Forall_impl; [|exact Hf]. intros kv Hkv. cbn in *.
        eapply bcmp_trans; eassumption.
Qed.

Lemma accepted_ascending calls :
  StronglySorted (fun a b => bcmp (fst a) (fst b) = Lt) (accepted calls).
Proof. apply spec_run_sorted. Qed.

(* ---- the record writer under "append" and "append, then seek back to where the append began" *)
Lemma lenN_app a b : lenN (a ++ b) = lenN a + lenN b.
Proof. unfold lenN. rewrite app_length. lia. Qed.

Lemma write_at_end (F junk e : bytes) :
  write_at (F ++ junk) (lenN F) e = (F ++ e) ++ skipn (length e) junk.
Proof.
  unfold write_at, lenN. rewrite Nat2N.id.
  rewrite firstn_app, firstn_all, Nat.sub_diag. cbn [firstn]. rewrite app_nil_r.
  rewrite skipn_app. rewrite skipn_all2 by lia. cbn [app].
  replace (length F + length e - length F)%nat with (length e) by lia.
  rewrite app_assoc. reflexivity.
Qed.

(* the writer state holds logical content F: the file is F followed by stale bytes that Close cuts *)
Definition wrep (s : wstate) (F : bytes) : Prop :=
  exists junk, w_file s = F ++ junk /\ w_cur s = lenN F /\ 8 <= w_cur s
               /\ lenN (w_file s) <= N.max (w_largest s) (w_cur s).

Lemma wrep_open c : wrep (w_open c) (file_hdr (ctype c)).
Proof.
  exists []. unfold w_open. cbn [w_file w_cur w_largest]. rewrite app_nil_r.
  assert (H8 : lenN (file_hdr (ctype c)) = 8) by reflexivity.
  rewrite H8. repeat split; lia.
Qed.

Lemma w_write_fst c r s :
  w_file (fst (w_write c r s)) = write_at (w_file s) (w_cur s) (enc_rec c r)
  /\ w_cur (fst (w_write c r s)) = w_cur s + lenN (enc_rec c r)
  /\ w_largest s <= w_largest (fst (w_write c r s)).
Proof. unfold w_write. destruct r as [p|]; cbn [fst w_file w_cur w_largest]; repeat split; lia. Qed.

Lemma w_write_snd c r s : snd (w_write c r s) = w_cur s.
Proof. unfold w_write. destruct r as [p|]; reflexivity. Qed.

Lemma skipn_len_le {A} n (l : list A) : (length (skipn n l) = length l - n)%nat.
Proof. apply skipn_length. Qed.

Lemma wrep_write c r s F : wrep s F -> wrep (fst (w_write c r s)) (F ++ enc_rec c r).
Proof.
  intros [junk [Hf [Hc [H8 Hl]]]].
  destruct (w_write_fst c r s) as [Wf [Wc Wl]].
  exists (skipn (length (enc_rec c r)) junk).
  rewrite Wf, Wc, Hf, Hc, write_at_end.
  split; [reflexivity|]. split; [symmetry; apply lenN_app|]. split; [lia|].
  rewrite Hf in Hl. unfold lenN in *. rewrite !app_length in *. rewrite skipn_length. lia.
Qed.

(* a failed index append: the data writer appended, then seeks back to the offset before *)
Definition w_undo (c : codec) (r : option bytes) (s : wstate) : wstate :=
  match w_seek (w_size s) (fst (w_write c r s)) with Ok d => d | Err _ => fst (w_write c r s) end.

Lemma wrep_undo c r s F : wrep s F -> wrep (w_undo c r s) F.
Proof.
  intros [junk [Hf [Hc [H8 Hl]]]].
  destruct (w_write_fst c r s) as [Wf [Wc Wl]].
  unfold w_undo, w_seek, w_size, file_header_size. rewrite Wc.
  replace (w_cur s <? 8) with false by (symmetry; apply N.ltb_ge; exact H8).
  replace (w_cur s + lenN (enc_rec c r) <? w_cur s) with false by (symmetry; apply N.ltb_ge; lia).
  exists (enc_rec c r ++ skipn (length (enc_rec c r)) junk). cbn [w_file w_cur w_largest].
  rewrite Wf, Hf, Hc, write_at_end, <- app_assoc.
  split; [reflexivity|]. split; [reflexivity|]. split; [lia|].
  rewrite Hf in Hl. unfold lenN in *. rewrite !app_length in *. rewrite skipn_length. lia.
Qed.

Lemma wrep_close s F : wrep s F -> w_close s = F /\ w_size s = lenN F.
Proof.
  intros [junk [Hf [Hc [H8 Hl]]]]. split; [|exact Hc].
  unfold w_close. destruct (N.ltb_spec (w_cur s) (w_largest s)) as [Hlt|Hge].
  - rewrite Hf, Hc. unfold lenN. rewrite Nat2N.id.
    rewrite firstn_app, firstn_all, Nat.sub_diag. cbn [firstn]. apply app_nil_r.
  - rewrite Hf in *. unfold lenN in *. rewrite app_length in Hl.
    destruct junk as [|x junk]; [apply app_nil_r|]. cbn [length] in Hl. lia.
Qed.

(* ---- one call, with the pair patterns resolved *)
Definition set_bloom (s : tw) (b : list bytes) : tw :=
  mkTW (tw_ci s) (tw_cd s) (tw_idx s) (tw_data s) (tw_last s) (tw_min s) (tw_num s) (tw_nulls s) b.

Lemma tw_step f k v s :
  tw_write_next f k v s =
  if too_small (tw_last s) k then (s, Err Rejected)
  else match f with
       | FailData => (set_bloom s (k :: tw_bloom s), Err Other)
       | FailIndex =>
           (mkTW (tw_ci s) (tw_cd s) (tw_idx s) (w_undo (tw_cd s) v (tw_data s))
                 (tw_last s) (tw_min s) (tw_num s) (tw_nulls s) (k :: tw_bloom s), Err Other)
       | NoFault =>
           (mkTW (tw_ci s) (tw_cd s)
                 (fst (w_write (tw_ci s)
                         (Some (pb_index_entry k (w_cur (tw_data s)) (crc64iso (payload_of v)))) (tw_idx s)))
                 (fst (w_write (tw_cd s) v (tw_data s)))
                 (Some k)
                 (match tw_min s with Some m => Some m | None => Some k end)
                 (tw_num s + 1)
                 (match v with None => tw_nulls s + 1 | Some _ => tw_nulls s end)
                 (k :: tw_bloom s), Ok tt)
       end.
Proof.
  unfold tw_write_next. fold (too_small (tw_last s) k).
  destruct (too_small (tw_last s) k); [reflexivity|].
  destruct f.
  - rewrite <- (w_write_snd (tw_cd s) v (tw_data s)).
    destruct (w_write (tw_cd s) v (tw_data s)) as [d' off]. cbn [fst snd].
    destruct (w_write (tw_ci s) _ (tw_idx s)) as [i' o']. reflexivity.
  - reflexivity.
  - unfold w_undo. destruct (w_write (tw_cd s) v (tw_data s)) as [d' off]. reflexivity.
Qed.

Lemma tw_run_cons f k v rest s :
  tw_run ((f, k, v) :: rest) s =
  (fst (tw_run rest (fst (tw_write_next f k v s))),
   snd (tw_write_next f k v s) :: snd (tw_run rest (fst (tw_write_next f k v s)))).
Proof.
  cbn [tw_run]. destruct (tw_write_next f k v s) as [s' r]. cbn [fst snd].
  destruct (tw_run rest s') as [s'' rs]. reflexivity.
Qed.

Lemma hd_error_snoc {A} (l : list A) x :
  hd_error (l ++ [x]) = match hd_error l with Some y => Some y | None => Some x end.
Proof. destruct l as [|y l]; reflexivity. Qed.

Lemma tw_run_results calls : forall s, snd (tw_run calls s) = fst (spec_run calls (tw_last s)).
Proof.
  induction calls as [|[[f k] v] rest IH]; intros s; [reflexivity|].
  rewrite tw_run_cons, spec_run_cons, tw_step. cbn [snd].
  destruct (too_small (tw_last s) k); [cbn [fst snd]; rewrite IH; reflexivity|].
  destruct f; cbn [fst snd]; rewrite IH; reflexivity.
Qed.

Lemma count_nil_cons k v acc :
  N.of_nat (length (filter (fun kv : bytes * option bytes => match snd kv with None => true | Some _ => false end)
                      ((k, v) :: acc)))
  = (match v with None => 1 | Some _ => 0 end)
    + N.of_nat (length (filter (fun kv : bytes * option bytes => match snd kv with None => true | Some _ => false end) acc)).
Proof. cbn [filter snd]. destruct v as [p|]; cbn [length]; lia. Qed.

(* bookkeeping of the metadata, from any state *)
Lemma tw_run_meta calls : forall s,
  let s' := fst (tw_run calls s) in
  let acc := snd (spec_run calls (tw_last s)) in
  tw_num s' = tw_num s + N.of_nat (length acc)
  /\ tw_nulls s' = tw_nulls s
       + N.of_nat (length (filter (fun kv : bytes * option bytes => match snd kv with None => true | Some _ => false end) acc))
  /\ tw_min s' = match tw_min s with Some m => Some m | None => option_map fst (hd_error acc) end
  /\ tw_last s' = match hd_error (rev acc) with Some kv => Some (fst kv) | None => tw_last s end.
Proof.
  induction calls as [|[[f k] v] rest IH]; intros s.
  - cbn. repeat split; try lia. destruct (tw_min s); reflexivity.
  - cbv zeta. rewrite tw_run_cons, spec_run_cons, tw_step. cbn [fst].
    destruct (too_small (tw_last s) k); [cbn [fst snd]; apply IH|].
    destruct f; cbn [fst snd]; try apply (IH (mkTW _ _ _ _ _ _ _ _ _)).
    match goal with |- context [tw_run rest ?st] => specialize (IH st) end.
    cbv zeta in IH. cbn [tw_num tw_nulls tw_min tw_last] in IH.
    destruct IH as [Hn [Hz [Hm Hl]]].
    rewrite Hn, Hz, Hm, Hl, count_nil_cons. cbn [length rev hd_error option_map fst].
    rewrite hd_error_snoc.
    split; [lia|]. split; [destruct v; lia|]. split; [destruct (tw_min s); reflexivity|].
    destruct (hd_error (rev (snd (spec_run rest (Some k))))); reflexivity.
Qed.

Lemma tw_run_bloom_mono calls : forall s x,
  In x (tw_bloom s) -> In x (tw_bloom (fst (tw_run calls s))).
Proof.
  induction calls as [|[[f k] v] rest IH]; intros s x Hx; [exact Hx|].
  rewrite tw_run_cons, tw_step. cbn [fst].
  destruct (too_small (tw_last s) k); [apply IH; exact Hx|].
  destruct f; cbn [fst]; apply IH; cbn; right; exact Hx.
Qed.

Lemma tw_run_bloom calls : forall s kv,
  In kv (snd (spec_run calls (tw_last s))) -> In (fst kv) (tw_bloom (fst (tw_run calls s))).
Proof.
  induction calls as [|[[f k] v] rest IH]; intros s kv Hin; [destruct Hin|].
  rewrite tw_run_cons, tw_step. rewrite spec_run_cons in Hin. cbn [fst].
  destruct (too_small (tw_last s) k); [apply IH; exact Hin|].
  destruct f; cbn [fst snd] in *; try (apply (IH (mkTW _ _ _ _ _ _ _ _ _)); exact Hin).
  destruct Hin as [<-|Hin].
  - apply tw_run_bloom_mono. cbn. left. reflexivity.
  - apply (IH (mkTW _ _ _ _ _ _ _ _ _)). exact Hin.
Qed.

Section Facts.
  Variables ci cd : codec.

  Definition vsize_ok (v : option bytes) : Prop :=
    lenN (payload_of v) < 2 ^ 64 /\ lenN (comp cd (payload_of v)) < 2 ^ 64.
  Definition calls_ok (calls : list call) : Prop := Forall (fun c => vsize_ok (snd c)) calls.

  (* index entries of the accepted pairs: offsets are where the values start in the data file *)
  Fixpoint entries_of (kvs : list (bytes * option bytes)) (off : N) : list (bytes * N * N) :=
    match kvs with
    | [] => []
    | (k, v) :: rest => (k, off, crc64iso (payload_of v)) :: entries_of rest (off + lenN (enc_rec cd v))
    end.

  Definition count_nil (kvs : list (bytes * option bytes)) : N :=
    N.of_nat (length (filter (fun kv => match snd kv with None => true | Some _ => false end) kvs)).

  (* every result equals the specification's verdict *)
  Definition ienc (e : bytes * N * N) : bytes :=
    enc_rec ci (Some (pb_index_entry (fst (fst e)) (snd (fst e)) (snd e))).

  (* the two record writers hold exactly the accepted pairs / their index entries, from any state *)
  Lemma tw_run_files calls : forall s FD FI,
    tw_ci s = ci -> tw_cd s = cd -> wrep (tw_data s) FD -> wrep (tw_idx s) FI ->
    let s' := fst (tw_run calls s) in
    let acc := snd (spec_run calls (tw_last s)) in
    wrep (tw_data s') (FD ++ flat_map (fun kv => enc_rec cd (snd kv)) acc)
    /\ wrep (tw_idx s') (FI ++ flat_map ienc (entries_of acc (lenN FD))).
  Proof.
    induction calls as [|[[f k] v] rest IH]; intros s FD FI Hci Hcd HD HI.
    - cbn. rewrite !app_nil_r. split; assumption.
    - cbv zeta. rewrite tw_run_cons, spec_run_cons, tw_step. cbn [fst].
      destruct (too_small (tw_last s) k); [cbn [fst snd]; apply IH; assumption|].
      destruct f; cbn [fst snd].
      + (* accepted *)
        match goal with |- context [tw_run rest ?st] => specialize (IH st (FD ++ enc_rec cd v) (FI ++ ienc (k, lenN FD, crc64iso (payload_of v)))) end.
        cbv zeta in IH. cbn [tw_ci tw_cd tw_data tw_idx tw_last] in IH.
        destruct IH as [H1 H2]; try assumption.
        * rewrite Hcd. apply wrep_write. exact HD.
        * rewrite Hci. destruct HD as [junk [_ [Hc _]]]. rewrite Hc. apply wrep_write. exact HI.
        * cbn [flat_map entries_of snd]. rewrite lenN_app in H2. rewrite <- !app_assoc in *.
          split; assumption.
      + apply (IH (mkTW _ _ _ _ _ _ _ _ _)); cbn; assumption.
      + apply (IH (mkTW _ _ _ _ _ _ _ _ _)); cbn; try assumption.
        apply wrep_undo. exact HD.
  Qed.

  Lemma tw_closed_files calls :
    let s' := fst (tw_run calls (tw_open ci cd)) in
    let acc := accepted calls in
    wrep (tw_data s') (file_hdr (ctype cd) ++ flat_map (fun kv => enc_rec cd (snd kv)) acc)
    /\ wrep (tw_idx s') (file_hdr (ctype ci) ++ flat_map ienc (entries_of acc 8)).
  Proof.
    apply (tw_run_files calls (tw_open ci cd) (file_hdr (ctype cd)) (file_hdr (ctype ci)));
      try reflexivity; apply wrep_open.
  Qed.

  Theorem writer_results calls :
    snd (tw_run calls (tw_open ci cd)) = fst (spec_run calls None).
  Proof. apply (tw_run_results calls (tw_open ci cd)). Qed.

  (* the closed files hold exactly the accepted pairs; failed appends leave no trace *)
  Theorem writer_accepts_exactly calls :
    calls_ok calls ->
    let t := tw_close (fst (tw_run calls (tw_open ci cd))) in
    let acc := accepted calls in
    tf_data t = file_hdr (ctype cd) ++ flat_map (fun kv => enc_rec cd (snd kv)) acc
    /\ tf_index t = file_hdr (ctype ci)
         ++ flat_map (fun e => enc_rec ci (Some (pb_index_entry (fst (fst e)) (snd (fst e)) (snd e)))) (entries_of acc 8).
  Proof.
    intros _. cbv zeta. destruct (tw_closed_files calls) as [HD HI].
    apply wrep_close in HD. apply wrep_close in HI.
    unfold tw_close. cbn [tf_data tf_index]. split; [apply HD|apply HI].
  Qed.

  Theorem metadata_truthful calls :
    calls_ok calls ->
    let t := tw_close (fst (tw_run calls (tw_open ci cd))) in
    let acc := accepted calls in
    tf_num t = N.of_nat (length acc)
    /\ tf_nulls t = count_nil acc
    /\ tf_min t = option_map fst (hd_error acc)
    /\ tf_max t = option_map fst (hd_error (rev acc))
    /\ tf_data_bytes t = lenN (tf_data t)
    /\ tf_index_bytes t = lenN (tf_index t).
  Proof.
    intros _. cbv zeta. destruct (tw_closed_files calls) as [HD HI].
    apply wrep_close in HD. apply wrep_close in HI.
    destruct (tw_run_meta calls (tw_open ci cd)) as [Hn [Hz [Hm Hl]]].
    unfold tw_close. cbn [tf_num tf_nulls tf_min tf_max tf_data_bytes tf_index_bytes tf_data tf_index].
    cbn [tw_open tw_num tw_nulls tw_min tw_last] in Hn, Hz, Hm, Hl.
    unfold count_nil, accepted.
    split; [rewrite Hn; lia|]. split; [rewrite Hz; lia|]. split; [exact Hm|].
    split; [rewrite Hl; destruct (hd_error (rev (snd (spec_run calls None)))); reflexivity|].
    destruct HD as [HD1 HD2]. destruct HI as [HI1 HI2].
    split; [rewrite HD1; exact HD2|rewrite HI1; exact HI2].
  Qed.

  (* every accepted key was added to the bloom filter (no false negatives downstream) *)
  Theorem bloom_has_accepted calls :
    forall kv, In kv (accepted calls) -> In (fst kv) (tf_bloom (tw_close (fst (tw_run calls (tw_open ci cd))))).
  Proof.
    intros kv Hin. unfold tw_close. cbn [tf_bloom].
    apply (tw_run_bloom calls (tw_open ci cd)). exact Hin.
  Qed.
End Facts.

Definition id_codec : codec := mkCodec 0 (fun x => x) (fun x => Ok x).

(* non-vacuity: first and last call fail, one key is retried, one goes backwards *)
Example writer_example :
  let calls := [(FailData, [10], Some [1]); (NoFault, [10], Some [2]); (NoFault, [5], Some [3]);
                (NoFault, [20], None); (FailIndex, [30], Some [4]); (NoFault, [30], Some []); (FailIndex, [40], None)] in
  accepted calls = [([10], Some [2]); ([20], None); ([30], Some [])]
  /\ snd (tw_run calls (tw_open id_codec id_codec)) = [Err Other; Ok tt; Err Rejected; Ok tt; Err Other; Ok tt; Err Other]
  /\ tf_max (tw_close (fst (tw_run calls (tw_open id_codec id_codec)))) = Some [30]
  /\ tf_min (tw_close (fst (tw_run calls (tw_open id_codec id_codec)))) = Some [10].
Proof. vm_compute. repeat split; reflexivity. Qed.

Print Assumptions accepted_ascending.
Print Assumptions writer_results.
Print Assumptions writer_accepts_exactly.
Print Assumptions metadata_truthful.
Print Assumptions bloom_has_accepted.
Print Assumptions writer_example.
