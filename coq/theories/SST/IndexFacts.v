(* The in-memory key indexes over a sorted entry list: binary search and its users. *)
From GoSST Require Import Base.Bytes Base.Order SST.Index.
From Coq Require Import Lia Sorting.Sorted.
Local Open Scope N_scope.

Definition esorted (es : list ientry) : Prop :=
  StronglySorted (fun a b => bcmp (ikey a) (ikey b) = Lt) es.

(* number of entries whose key is smaller than the target = index of the first entry >= target *)
Fixpoint lower_bound (es : list ientry) (key : bytes) : nat :=
  match es with
  | [] => O
  | e :: r => match bcmp (ikey e) key with Lt => S (lower_bound r key) | _ => O end
  end.

Definition has_key (es : list ientry) (key : bytes) : bool := existsb (fun e => beqb (ikey e) key) es.

(* ------------------------------------------------------------------ helpers *)

Local Notation d0 := ([], 0, 0).

(* generic list facts *)
Lemma Forall_false_existsb {A} (f : A -> bool) l :
  Forall (fun b => f b = false) l -> existsb f l = false.
Proof.
  induction l as [|x l IH]; intros H; simpl; [reflexivity|].
  inversion H as [|? ? Hx Hl]; subst. rewrite Hx. simpl. apply IH. exact Hl.
Qed.

Lemma Forall_false_find {A} (f : A -> bool) l :
  Forall (fun b => f b = false) l -> find f l = None.
Proof.
  induction l as [|x l IH]; intros H; simpl; [reflexivity|].
  inversion H as [|? ? Hx Hl]; subst. rewrite Hx. apply IH. exact Hl.
Qed.

Lemma Forall_false_filter {A} (f : A -> bool) l :
  Forall (fun b => f b = false) l -> filter f l = [].
Proof.
  induction l as [|x l IH]; intros H; simpl; [reflexivity|].
  inversion H as [|? ? Hx Hl]; subst. rewrite Hx. apply IH. exact Hl.
Qed.

Lemma Forall_true_filter {A} (f : A -> bool) l :
  Forall (fun b => f b = true) l -> filter f l = l.
Proof.
  induction l as [|x l IH]; intros H; simpl; [reflexivity|].
  inversion H as [|? ? Hx Hl]; subst. rewrite Hx. f_equal. apply IH. exact Hl.
Qed.

Lemma StronglySorted_weaken {A} (R R' : A -> A -> Prop) l :
  (forall a b, R a b -> R' a b) -> StronglySorted R l -> StronglySorted R' l.
Proof.
  intros HR. induction l as [|x l IH]; intros H; [constructor|].
  inversion H as [|? ? Hl Hx]; subst. constructor; [apply IH; exact Hl|].
  eapply Forall_impl; [|exact Hx]. intros b Hb. apply HR. exact Hb.
Qed.

(* length of the longest prefix satisfying p, and predicates that are downward closed
   along the list (true on a prefix, false afterwards) *)
Fixpoint plen (p : ientry -> bool) (es : list ientry) : nat :=
  match es with [] => O | e :: r => if p e then S (plen p r) else O end.

Definition pmono (p : ientry -> bool) (es : list ientry) : Prop :=
  StronglySorted (fun a b => p b = true -> p a = true) es.

Lemma plen_le p es : (plen p es <= length es)%nat.
Proof. induction es as [|e r IH]; simpl; [lia|]. destruct (p e); lia. Qed.

Lemma plen_nth_true p es : forall n, (n < plen p es)%nat -> p (nth n es d0) = true.
Proof.
  induction es as [|e r IH]; intros n Hn; simpl in Hn; [lia|].
  destruct (p e) eqn:E; [|lia]. destruct n as [|n]; simpl; [exact E|]. apply IH. lia.
Qed.

Lemma pmono_all_false p e r : pmono p (e :: r) -> p e = false ->
  Forall (fun b => p b = false) (e :: r).
Proof.
  intros Hm He. inversion Hm as [|? ? Hr Hall]; subst. constructor; [exact He|].
  eapply Forall_impl; [|exact Hall]. intros b Hb. simpl in Hb.
  destruct (p b) eqn:E; [|reflexivity]. rewrite (Hb eq_refl) in He. discriminate.
Qed.

Lemma pmono_tail p e r : pmono p (e :: r) -> pmono p r.
Proof. intros Hm. inversion Hm; subst; assumption. Qed.

Lemma plen_nth_false p es : pmono p es ->
  forall n, (plen p es <= n < length es)%nat -> p (nth n es d0) = false.
Proof.
  induction es as [|e r IH]; intros Hm n Hn; simpl in Hn; [lia|].
  destruct (p e) eqn:E.
  - destruct n as [|n]; [lia|]. simpl. apply IH; [eapply pmono_tail; exact Hm|lia].
  - pose proof (pmono_all_false p e r Hm E) as HF. rewrite Forall_forall in HF.
    apply HF. apply nth_In. simpl. lia.
Qed.

Lemma skipn_plen p es : pmono p es -> skipn (plen p es) es = filter (fun e => negb (p e)) es.
Proof.
  induction es as [|e r IH]; intros Hm; simpl; [reflexivity|].
  destruct (p e) eqn:E; simpl.
  - apply IH. eapply pmono_tail; exact Hm.
  - pose proof (pmono_all_false p e r Hm E) as HF. inversion HF as [|? ? _ Hr]; subst.
    f_equal. symmetry. apply Forall_true_filter.
    eapply Forall_impl; [|exact Hr]. intros b Hb. simpl in Hb. rewrite Hb. reflexivity.
Qed.

Lemma firstn_plen p es : pmono p es -> firstn (plen p es) es = filter p es.
Proof.
  induction es as [|e r IH]; intros Hm; simpl; [reflexivity|].
  destruct (p e) eqn:E; simpl.
  - f_equal. apply IH. eapply pmono_tail; exact Hm.
  - pose proof (pmono_all_false p e r Hm E) as HF. inversion HF as [|? ? _ Hr]; subst.
    symmetry. apply Forall_false_filter. exact Hr.
Qed.

(* the window between two nested prefixes *)
Lemma window_head p1 p2 e r : pmono p1 (e :: r) -> p1 e = false ->
  filter (fun x => negb (p1 x) && p2 x) (e :: r) = filter p2 (e :: r).
Proof.
  intros Hm E1. pose proof (pmono_all_false p1 e r Hm E1) as HF. rewrite Forall_forall in HF.
  apply filter_ext_in. intros a Ha. rewrite (HF a Ha). reflexivity.
Qed.

Lemma window_plen p1 p2 es : pmono p1 es -> pmono p2 es ->
  (forall e, p1 e = true -> p2 e = true) ->
  firstn (plen p2 es - plen p1 es) (skipn (plen p1 es) es)
  = filter (fun x => negb (p1 x) && p2 x) es.
Proof.
  intros Hm1 Hm2 Hsub. induction es as [|e r IH]; [reflexivity|].
  destruct (p1 e) eqn:E1.
  - simpl. rewrite E1, (Hsub e E1). simpl. apply IH; eapply pmono_tail; eassumption.
  - rewrite (window_head p1 p2 e r Hm1 E1).
    assert (H0 : plen p1 (e :: r) = O) by (simpl; rewrite E1; reflexivity).
    rewrite H0, Nat.sub_0_r. change (skipn 0 (e :: r)) with (e :: r).
    apply firstn_plen. exact Hm2.
Qed.

(* ---- the two predicates used by the slice index *)
Definition plt (key : bytes) (e : ientry) : bool := bltb (ikey e) key.
Definition ple (key : bytes) (e : ientry) : bool := bleb (ikey e) key.

Lemma esorted_tail e r : esorted (e :: r) -> esorted r.
Proof. intros H. inversion H; subst; assumption. Qed.

Lemma esorted_head e r : esorted (e :: r) -> Forall (fun b => bcmp (ikey e) (ikey b) = Lt) r.
Proof. intros H. inversion H; subst; assumption. Qed.

Lemma pmono_plt key es : esorted es -> pmono (plt key) es.
Proof.
  apply StronglySorted_weaken. intros a b Hab. unfold plt, bltb.
  destruct (bcmp (ikey b) key) eqn:E; try discriminate. intros _.
  rewrite (bcmp_trans _ _ _ Hab E). reflexivity.
Qed.

Lemma pmono_ple key es : esorted es -> pmono (ple key) es.
Proof.
  apply StronglySorted_weaken. intros a b Hab. unfold ple, bleb.
  destruct (bcmp (ikey b) key) eqn:E; try discriminate; intros _.
  - rewrite (cmp_lt_le_trans bcmp bcmp_laws _ _ _ Hab); [reflexivity|congruence].
  - rewrite (cmp_lt_le_trans bcmp bcmp_laws _ _ _ Hab); [reflexivity|congruence].
Qed.

Lemma lower_bound_plen es key : lower_bound es key = plen (plt key) es.
Proof.
  induction es as [|e r IH]; simpl; [reflexivity|]. unfold plt at 1, bltb.
  destruct (bcmp (ikey e) key); rewrite ?IH; reflexivity.
Qed.

Lemma lower_bound_le es key : (lower_bound es key <= length es)%nat.
Proof. rewrite lower_bound_plen. apply plen_le. Qed.

Lemma lb_nth_lt es key n : (n < lower_bound es key)%nat ->
  bcmp (ikey (nth n es d0)) key = Lt.
Proof.
  rewrite lower_bound_plen. intros Hn. pose proof (plen_nth_true _ _ _ Hn) as H.
  unfold plt, bltb in H. destruct (bcmp (ikey (nth n es d0)) key); congruence.
Qed.

Lemma lb_nth_ge es key n : esorted es -> (lower_bound es key <= n < length es)%nat ->
  bcmp (ikey (nth n es d0)) key <> Lt.
Proof.
  rewrite lower_bound_plen. intros Hs Hn.
  pose proof (plen_nth_false _ _ (pmono_plt key es Hs) _ Hn) as H.
  unfold plt, bltb in H. intros C. rewrite C in H. discriminate.
Qed.

Lemma div2_mid i j : (i < j)%nat -> (i <= Nat.div2 (i + j) < j)%nat.
Proof.
  intros H. rewrite Nat.div2_div.
  pose proof (Nat.div_mod (i + j) 2 ltac:(lia)) as E.
  pose proof (Nat.mod_upper_bound (i + j) 2 ltac:(lia)) as U. lia.
Qed.

Lemma bs_loop_step f es key i j :
  bs_loop (S f) es key i j =
  if Nat.ltb i j then
    match bcmp (ikey (nth (Nat.div2 (i + j)) es d0)) key with
    | Lt => bs_loop f es key (S (Nat.div2 (i + j))) j
    | _ => bs_loop f es key i (Nat.div2 (i + j))
    end
  else i.
Proof. reflexivity. Qed.

Lemma bs_loop_spec es key : esorted es -> forall fuel i j,
  (i <= lower_bound es key <= j)%nat -> (j <= length es)%nat -> (j - i < fuel)%nat ->
  bs_loop fuel es key i j = lower_bound es key.
Proof.
  intros Hs. induction fuel as [|f IH]; intros i j Hb Hj Hf; [lia|].
  rewrite bs_loop_step. destruct (Nat.ltb i j) eqn:Eij.
  - apply Nat.ltb_lt in Eij. pose proof (div2_mid i j Eij) as Hh.
    set (h := Nat.div2 (i + j)) in *.
    assert (Hlo : (h < lower_bound es key)%nat -> bcmp (ikey (nth h es d0)) key = Lt)
      by apply lb_nth_lt.
    assert (Hhi : (lower_bound es key <= h)%nat -> bcmp (ikey (nth h es d0)) key <> Lt).
    { intros Hle. apply lb_nth_ge; [exact Hs|lia]. }
    destruct (bcmp (ikey (nth h es d0)) key) eqn:C.
    + apply IH; try lia. destruct (le_lt_dec (lower_bound es key) h) as [Hc|Hc]; [lia|].
      specialize (Hlo Hc). discriminate.
    + apply IH; try lia. destruct (le_lt_dec (lower_bound es key) h) as [Hc|Hc]; [|lia].
      exfalso. apply (Hhi Hc). reflexivity.
    + apply IH; try lia. destruct (le_lt_dec (lower_bound es key) h) as [Hc|Hc]; [lia|].
      specialize (Hlo Hc). discriminate.
  - apply Nat.ltb_ge in Eij. lia.
Qed.

(* entries after a head that is not below the target cannot equal the target *)
Lemma tail_no_key e r key : esorted (e :: r) -> bcmp (ikey e) key = Gt ->
  Forall (fun b => beqb (ikey b) key = false) r.
Proof.
  intros Hs C. eapply Forall_impl; [|exact (esorted_head e r Hs)].
  intros b Hb. simpl in Hb. unfold beqb. destruct (bcmp (ikey b) key) eqn:E; try reflexivity.
  apply bcmp_eq in E. rewrite E in Hb. rewrite Hb in C. discriminate.
Qed.

Lemma tail_no_key_eq e r key : esorted (e :: r) -> bcmp (ikey e) key = Eq ->
  Forall (fun b => beqb (ikey b) key = false) r.
Proof.
  intros Hs C. eapply Forall_impl; [|exact (esorted_head e r Hs)].
  intros b Hb. simpl in Hb. unfold beqb. destruct (bcmp (ikey b) key) eqn:E; try reflexivity.
  apply bcmp_eq in E. apply bcmp_eq in C. rewrite E, C in Hb. rewrite bcmp_refl in Hb. discriminate.
Qed.

Lemma beqb_of_cmp a b : beqb a b = match bcmp a b with Eq => true | _ => false end.
Proof. reflexivity. Qed.

Lemma has_key_cons e r key : has_key (e :: r) key = (beqb (ikey e) key || has_key r key)%bool.
Proof. reflexivity. Qed.

Lemma has_key_lb es key : esorted es ->
  (Nat.ltb (lower_bound es key) (length es) && beqb (ikey (nth (lower_bound es key) es d0)) key)%bool
  = has_key es key.
Proof.
  induction es as [|e r IH]; intros Hs; [reflexivity|].
  rewrite has_key_cons. pose proof (beqb_of_cmp (ikey e) key) as B.
  cbn [lower_bound]. destruct (bcmp (ikey e) key) eqn:C; rewrite B.
  - simpl. rewrite B. reflexivity.
  - rewrite <- (IH (esorted_tail e r Hs)). reflexivity.
  - simpl. rewrite B. symmetry.
    apply Forall_false_existsb. eapply tail_no_key; eassumption.
Qed.

Lemma find_sorted es key : esorted es ->
  find (fun e => beqb (ikey e) key) es =
  if has_key es key then Some (nth (lower_bound es key) es d0) else None.
Proof.
  induction es as [|e r IH]; intros Hs; [reflexivity|].
  rewrite has_key_cons. pose proof (beqb_of_cmp (ikey e) key) as B.
  cbn [lower_bound find]. destruct (bcmp (ikey e) key) eqn:C; rewrite B.
  - reflexivity.
  - simpl. apply IH. eapply esorted_tail; exact Hs.
  - simpl. pose proof (tail_no_key e r key Hs C) as HF.
    rewrite (Forall_false_find _ _ HF). unfold has_key. rewrite (Forall_false_existsb _ _ HF).
    reflexivity.
Qed.

(* ------------------------------------------------------------------ main statements *)

(* slices.BinarySearchFunc as its loop *)
Theorem bsearch_spec es key : esorted es -> bsearch es key = (lower_bound es key, has_key es key).
Proof.
  intros Hs. unfold bsearch.
  rewrite (bs_loop_spec es key Hs (S (length es)) 0 (length es)).
  - rewrite (has_key_lb es key Hs). reflexivity.
  - pose proof (lower_bound_le es key). lia.
  - lia.
  - lia.
Qed.

Theorem slice_get_spec es key : esorted es ->
  slice_get es key = option_map ival (find (fun e => beqb (ikey e) key) es).
Proof.
  intros Hs. unfold slice_get. rewrite (bsearch_spec es key Hs), (find_sorted es key Hs).
  destruct (has_key es key); reflexivity.
Qed.

Theorem slice_from_spec es key : esorted es ->
  slice_from es key = filter (fun e => negb (bltb (ikey e) key)) es.
Proof.
  intros Hs. unfold slice_from, slice_iter. rewrite (bsearch_spec es key Hs). simpl fst.
  rewrite firstn_all2 by (rewrite skipn_length; lia).
  rewrite lower_bound_plen. apply (skipn_plen (plt key) es). apply pmono_plt. exact Hs.
Qed.

(* the adjusted end index is the number of entries <= hi *)
Definition end_adj (es : list ientry) (hi : bytes) : nat :=
  if (Nat.ltb (lower_bound es hi) (length es) && bleb (ikey (nth (lower_bound es hi) es d0)) hi)%bool
  then S (lower_bound es hi) else lower_bound es hi.

Lemma end_adj_lt e r hi : bcmp (ikey e) hi = Lt -> end_adj (e :: r) hi = S (end_adj r hi).
Proof.
  intros C. unfold end_adj. cbn [lower_bound]. rewrite C.
  change (Nat.ltb (S (lower_bound r hi)) (length (e :: r)))
    with (Nat.ltb (lower_bound r hi) (length r)).
  change (nth (S (lower_bound r hi)) (e :: r) d0) with (nth (lower_bound r hi) r d0).
  destruct (Nat.ltb (lower_bound r hi) (length r) && bleb (ikey (nth (lower_bound r hi) r d0)) hi)%bool;
    reflexivity.
Qed.

Lemma end_adj_nlt e r hi : bcmp (ikey e) hi <> Lt ->
  end_adj (e :: r) hi = if bleb (ikey e) hi then 1%nat else 0%nat.
Proof.
  intros C. unfold end_adj. cbn [lower_bound].
  destruct (bcmp (ikey e) hi) eqn:E; try congruence; reflexivity.
Qed.

Lemma end_adjust es hi : esorted es -> end_adj es hi = plen (ple hi) es.
Proof.
  induction es as [|e r IH]; intros Hs; [reflexivity|].
  cbn [plen]. unfold ple at 1.
  destruct (bcmp (ikey e) hi) eqn:C.
  - rewrite end_adj_nlt by congruence. unfold bleb. rewrite C. f_equal.
    destruct r as [|e2 r2]; [reflexivity|]. simpl. unfold ple, bleb.
    pose proof (esorted_head _ _ Hs) as Hh. inversion Hh as [|? ? H2 _]; subst.
    apply bcmp_eq in C. rewrite C in H2.
    rewrite (proj2 (cmp_gt_lt bcmp bcmp_laws (ikey e2) hi) H2). reflexivity.
  - rewrite (end_adj_lt e r hi C). unfold bleb. rewrite C.
    rewrite (IH (esorted_tail e r Hs)). reflexivity.
  - rewrite end_adj_nlt by congruence. unfold bleb. rewrite C. reflexivity.
Qed.

(* inclusive bounds *)
Theorem slice_between_spec es lo hi : esorted es -> bcmp lo hi <> Gt ->
  slice_between es lo hi = Some (filter (fun e => bleb lo (ikey e) && bleb (ikey e) hi) es).
Proof.
  intros Hs Hle. unfold slice_between.
  rewrite (bsearch_spec es lo Hs), (bsearch_spec es hi Hs). simpl fst.
  fold (end_adj es hi). rewrite (end_adjust es hi Hs). unfold slice_iter. rewrite lower_bound_plen.
  rewrite (window_plen (plt lo) (ple hi) es (pmono_plt lo es Hs) (pmono_ple hi es Hs)).
  - assert (E : filter (fun e => negb (plt lo e) && ple hi e) es
               = filter (fun e => bleb lo (ikey e) && bleb (ikey e) hi) es).
    { apply filter_ext. intros a. unfold plt, ple, bltb, bleb. f_equal.
      rewrite (bcmp_antisym (ikey a) lo). destruct (bcmp (ikey a) lo); reflexivity. }
    rewrite E. destruct (bcmp lo hi); try reflexivity. congruence.
  - intros e. unfold plt, ple, bltb, bleb. destruct (bcmp (ikey e) lo) eqn:C; try discriminate.
    intros _. rewrite (cmp_lt_le_trans bcmp bcmp_laws _ _ _ C Hle). reflexivity.
Qed.

Theorem slice_between_rejects es lo hi : bcmp lo hi = Gt -> slice_between es lo hi = None.
Proof. intros H. unfold slice_between. rewrite H. reflexivity. Qed.

(* bytes_eqb and beqb agree *)
Lemma bytes_eqb_beqb a : forall b, bytes_eqb a b = beqb a b.
Proof.
  unfold bytes_eqb, beqb.
  induction a as [|x a IH]; intros [|y b]; simpl; try reflexivity.
  rewrite N.eqb_compare. destruct (N.compare x y); simpl; try reflexivity. apply IH.
Qed.

Lemma pad_exact w k : length k = w -> pad w k = k.
Proof. intros H. unfold pad. rewrite H, Nat.sub_diag. simpl. apply app_nil_r. Qed.

Lemma map_get_sorted w key es : esorted es ->
  Forall (fun e => length (ikey e) = w) es -> length key = w -> forall acc,
  map_get w es key acc =
  match find (fun e => beqb (ikey e) key) es with Some e => Some (ival e) | None => acc end.
Proof.
  intros Hs Hw Hk. induction es as [|e r IH]; intros acc; [reflexivity|].
  pose proof (Forall_inv Hw) as He. pose proof (Forall_inv_tail Hw) as Hr. simpl in He.
  cbn [map_get find].
  rewrite (IH (esorted_tail e r Hs) Hr).
  rewrite (pad_exact w (ikey e) He), (pad_exact w key Hk), bytes_eqb_beqb.
  destruct (beqb (ikey e) key) eqn:C; [|reflexivity].
  unfold beqb in C. destruct (bcmp (ikey e) key) eqn:C2; try discriminate.
  rewrite (Forall_false_find _ _ (tail_no_key_eq e r key Hs C2)). reflexivity.
Qed.

(* map index: sound for keys of exactly the mapper's width (distinct keys stay distinct) *)
Theorem map_get_fixed_width w es key : esorted es ->
  Forall (fun e => length (ikey e) = w) es -> length key = w ->
  map_get w es key None = option_map ival (find (fun e => beqb (ikey e) key) es).
Proof.
  intros Hs Hw Hk. rewrite (map_get_sorted w key es Hs Hw Hk).
  destruct (find (fun e => beqb (ikey e) key) es); reflexivity.
Qed.

(* ... and refuted in general: a shorter key and its zero-padded twin are one map entry (F-C03c) *)
Theorem map_get_refuted :
  exists w es key, esorted es /\ (length key <= w)%nat /\ Forall (fun e => (length (ikey e) <= w)%nat) es
    /\ has_key es key = false /\ map_get w es key None <> None.
Proof.
  exists 4%nat, [([98; 0], 1, 2)], [98].
  split; [repeat constructor|]. split; [simpl; lia|].
  split; [repeat constructor; simpl; lia|]. split; [reflexivity|].
  vm_compute. discriminate.
Qed.

Print Assumptions bsearch_spec.
Print Assumptions slice_get_spec.
Print Assumptions slice_from_spec.
Print Assumptions slice_between_spec.
Print Assumptions slice_between_rejects.
Print Assumptions map_get_fixed_width.
Print Assumptions map_get_refuted.
