(* C09: whatever happened to the bytes of the data file, a checked read never returns a value
   whose CRC-64 differs from the checksum stored in the index (unless that checksum is zero: the
   format's escape for empty / nil values and legacy tables). *)
From GoSST Require Import Base.Bytes Base.Crc Base.CrcFacts RecordIO.Format RecordIO.MmapReader RecordIO.SeqReader.
From GoSST Require Import SST.TableWriter SST.Index SST.TableReader.
From Coq Require Import Lia.
Local Open Scope N_scope.

(* per-read checking: for ANY data bytes, any index entry *)
Theorem checked_read_same_crc (r : reader) (off crc : N) (v : option bytes) :
  get_value_at r off crc false = Ok v -> crc64iso (payload_of v) = crc \/ crc = 0.
Proof.
  unfold get_value_at. intros H.
  destruct (read_at (r_cd r) (r_data r) off) as [val|e]; [|discriminate].
  cbn in H.
  destruct (crc64iso (payload_of val) =? crc) eqn:E.
  - inversion H; subst. left. apply N.eqb_eq. exact E.
  - destruct (crc =? 0) eqn:Z; [right; apply N.eqb_eq; exact Z|discriminate].
Qed.

Lemma validate_all_spec (r : reader) (es : list ientry) :
  validate_all r es = Ok tt ->
  forall e, In e es -> exists v, get_value_at r (snd (fst e)) (snd e) false = Ok v.
Proof.
  induction es as [|e0 es IH]; intros H e Hin; [destruct Hin|].
  cbn [validate_all] in H.
  destruct (get_value_at r (snd (fst e0)) (snd e0) false) as [v|x] eqn:E; [|discriminate].
  destruct Hin as [->|Hin]; [exists v; exact E|apply IH; assumption].
Qed.

(* the unchecked read returns the same value as the checked one when the latter succeeds *)
Lemma unchecked_agrees (r : reader) off crc v :
  get_value_at r off crc false = Ok v -> get_value_at r off crc true = Ok v.
Proof.
  unfold get_value_at.
  destruct (read_at (r_cd r) (r_data r) off) as [val|e]; [|discriminate].
  cbn. destruct (crc64iso (payload_of val) =? crc); [auto|]. destruct (crc =? 0); [auto|discriminate].
Qed.

(* default options (verify on load): if opening succeeds, every later read of an indexed entry
   returns a value with the stored checksum - for ANY data bytes *)
Theorem load_validates_all (ld : loader) (ci cd : codec) (index_file data_file : bytes) bloom (r : reader) :
  open_reader ld ci cd index_file data_file bloom false false = Ok r ->
  forall es, idx_all r = Ok es ->
  forall e, In e es ->
  exists v, get_value_at r (snd (fst e)) (snd e) true = Ok v
            /\ (crc64iso (payload_of v) = snd e \/ snd e = 0).
Proof.
  unfold open_reader. intros H es Hall e Hin.
  destruct (match ld with LDisk _ => match parse_file_hdr index_file with Ok _ => Ok [] | Err e0 => Err e0 end | _ => load_index ci index_file end) as [ents|x]; [|discriminate].
  destruct (parse_file_hdr data_file) as [hd|x]; [|discriminate].
  cbn [negb] in H.
  set (r0 := mkReader ld ci cd index_file ents data_file bloom false) in *.
  destruct (idx_all r0) as [all|x] eqn:Eall; [|discriminate].
  destruct (validate_all r0 all) as [u|x] eqn:Ev; [|discriminate].
  inversion H; subst r. rewrite Eall in Hall. inversion Hall; subst es.
  destruct u. destruct (validate_all_spec r0 all Ev e Hin) as [v Hv].
  exists v. split; [apply unchecked_agrees; exact Hv|eapply checked_read_same_crc; exact Hv].
Qed.

(* single-byte damage of an uncompressed payload: by the CRC-64 burst lemma the damaged value can
   never pass the check (no probabilistic assumption), so the read fails instead of returning it *)
Theorem single_byte_damage_detected (pre post : bytes) (b b' crc : N) :
  Forall (fun x => x < 256) pre -> Forall (fun x => x < 256) post -> b < 256 -> b' < 256 -> b <> b' ->
  crc = crc64iso (pre ++ b :: post) -> crc <> 0 ->
  crc64iso (pre ++ b' :: post) <> crc /\ (crc64iso (pre ++ b' :: post) =? crc) || (crc =? 0) = false.
Proof.
  intros Hpre Hpost Hb Hb' Hne Hcrc Hnz.
  assert (D : crc64iso (pre ++ b' :: post) <> crc).
  { subst crc. intro E. symmetry in E. revert E. apply crc64iso_one_byte; assumption. }
  split; [exact D|].
  destruct (N.eqb_spec (crc64iso (pre ++ b' :: post)) crc); [contradiction|].
  destruct (N.eqb_spec crc 0); [contradiction|reflexivity].
Qed.

(* hence: a reader whose data file returns the altered payload for that entry reports a checksum error *)
Corollary damaged_value_rejected (r : reader) (off : N) (pre post : bytes) (b b' : N) :
  Forall (fun x => x < 256) pre -> Forall (fun x => x < 256) post -> b < 256 -> b' < 256 -> b <> b' ->
  crc64iso (pre ++ b :: post) <> 0 ->
  read_at (r_cd r) (r_data r) off = Ok (Some (pre ++ b' :: post)) ->
  get_value_at r off (crc64iso (pre ++ b :: post)) false = Err ValueChecksum.
Proof.
  intros Hpre Hpost Hb Hb' Hne Hnz Hread. unfold get_value_at. rewrite Hread. cbn [payload_of].
  destruct (single_byte_damage_detected pre post b b' _ Hpre Hpost Hb Hb' Hne eq_refl Hnz) as [D _].
  destruct (N.eqb_spec (crc64iso (pre ++ b' :: post)) (crc64iso (pre ++ b :: post))); [contradiction|].
  destruct (N.eqb_spec (crc64iso (pre ++ b :: post)) 0); [contradiction|reflexivity].
Qed.

Print Assumptions checked_read_same_crc.
Print Assumptions load_validates_all.
Print Assumptions damaged_value_rejected.

(* ---- the zero checksum is the format's "no checksum" marker (empty and nil values, legacy tables), but it is also
   the CRC-64/ISO of some non-empty values: for those a per-read check accepts ANY bytes (finding F-C09a) *)
Definition crc0_value : bytes := [0xf4; 0x42; 0x2f; 0xf4; 0x42; 0x2f; 0xf4; 0x12].

Lemma crc0_value_facts : crc0_value <> [] /\ crc64iso crc0_value = 0.
Proof. split; [discriminate | vm_compute; reflexivity]. Qed.

Lemma zero_checksum_value_unprotected (r : reader) (off : N) (v' : option bytes) :
  read_at (r_cd r) (r_data r) off = Ok v' ->
  get_value_at r off (crc64iso crc0_value) false = Ok v'.
Proof.
  intros H. unfold get_value_at. rewrite H.
  replace (crc64iso crc0_value) with 0 by (symmetry; apply crc0_value_facts).
  destruct (crc64iso (payload_of v') =? 0); reflexivity.
Qed.

(* ---- fix 3f24fb5 (C11): an index entry whose value offset lies at or behind the end of the data file (the data file
   lost its tail) is a read error under every option - it is never answered with the nil value, which a merge would
   write out as a tombstone *)
Lemma offset_behind_data_is_error (r : reader) (off crc : N) (skip : bool) :
  lenN (r_data r) <= off -> exists e, get_value_at r off crc skip = Err e.
Proof.
  intros H. unfold get_value_at, read_at.
  destruct (lenN (r_data r) <? off) eqn:E; [eexists; reflexivity|].
  assert (S : sub (r_data r) off max_header_size = []).
  { unfold sub. rewrite skipn_all2; [destruct (N.to_nat max_header_size); reflexivity|].
    unfold lenN in H. lia. }
  rewrite S. eexists; reflexivity.
Qed.
Print Assumptions offset_behind_data_is_error.
