(* Helper lemmas for Fs/CrashFacts.v, part 3: every atomic effect, what it needs to keep [DInv]
   and what it does to [ctabs] and [wal_records]. *)
From Coq Require Import Lia Sorting.Sorted.
From GoSST Require Import Base.Bytes Base.Order Db.Logical Db.LogicalFacts Fs.Crash Fs.CrashKv Fs.CrashDisk.
Local Open Scope N_scope.

(* ---- inversion of the effects *)
Lemma ap_mkdir d g d' : fs_apply d (OTblMkdir g) = Some d' ->
  find_tab g (k_tabs d) = None /\ d' = mkDisk (insert_tab (mkT g TPartial []) (k_tabs d)) (k_wals d) (k_comp d).
Proof.
  unfold fs_apply. destruct (find_tab g (k_tabs d)); [discriminate|]. intros H. inversion H. auto.
Qed.

Definition complete_at (g : N) (data : ltable) (t : tdir) : tdir :=
  if has_gen g t then mkT g TComplete data else t.

Lemma ap_complete d g data d' : fs_apply d (OTblComplete g data) = Some d' ->
  (exists x, find_tab g (k_tabs d) = Some (mkT g TPartial x))
  /\ d' = mkDisk (map (complete_at g data) (k_tabs d)) (k_wals d) (k_comp d).
Proof.
  unfold fs_apply. destruct (find_tab g (k_tabs d)) as [[g' [| |] x]|] eqn:E; try discriminate.
  intros H. inversion H. split; [|reflexivity].
  apply find_tab_some in E. destruct E as [_ E]. simpl in E. subst g'. exists x. reflexivity.
Qed.

Definition unlink_at (g : N) (meta_gone : bool) (t : tdir) : tdir :=
  if has_gen g t
  then (if meta_gone then mkT g TPartial (t_data t)
        else match t_state t with TComplete => mkT g THalf (t_data t) | _ => t end)
  else t.

Lemma ap_unlink d g b d' : fs_apply d (OTblUnlink g b) = Some d' ->
  (exists t, find_tab g (k_tabs d) = Some t)
  /\ d' = mkDisk (map (unlink_at g b) (k_tabs d)) (k_wals d) (k_comp d).
Proof.
  unfold fs_apply. destruct (find_tab g (k_tabs d)) as [t|]; [|discriminate].
  intros H. inversion H. split; [exists t|]; reflexivity.
Qed.

Lemma ap_gone d g d' : fs_apply d (OTblGone g) = Some d' ->
  (exists t, find_tab g (k_tabs d) = Some t)
  /\ d' = mkDisk (remove_tab g (k_tabs d)) (k_wals d) (k_comp d).
Proof.
  unfold fs_apply. destruct (find_tab g (k_tabs d)) as [t|]; [|discriminate].
  intros H. inversion H. split; [exists t|]; reflexivity.
Qed.

Lemma ap_rename d d' : fs_apply d OCompRename = Some d' ->
  exists g0 rest m c, k_comp d = Some (mkCd (FlagGood (g0 :: rest)) m c) /\ find_tab g0 (k_tabs d) = None
    /\ d' = mkDisk (insert_tab (mkT g0 (if c then TComplete else TPartial) m) (k_tabs d)) (k_wals d) None.
Proof.
  unfold fs_apply. destruct (k_comp d) as [[[| |[|g0 rest]] m c]|]; try discriminate.
  destruct (find_tab g0 (k_tabs d)) eqn:E; [discriminate|]. intros H. inversion H.
  exists g0, rest, m, c. auto.
Qed.

Lemma unlink_at_gen g b t : t_gen (unlink_at g b t) = t_gen t.
Proof.
  unfold unlink_at, has_gen. destruct (N.eqb_spec (t_gen t) g) as [E|E]; [|reflexivity].
  destruct b; [simpl; auto|]. destruct (t_state t); simpl; auto.
Qed.

Lemma unlink_at_data g b t : t_data (unlink_at g b t) = t_data t.
Proof.
  unfold unlink_at. destruct (has_gen g t); [|reflexivity].
  destruct b; [reflexivity|]. destruct (t_state t); reflexivity.
Qed.

Lemma unlink_at_other g b t : t_gen t <> g -> unlink_at g b t = t.
Proof. intros H. unfold unlink_at, has_gen. destruct (N.eqb_spec (t_gen t) g); [contradiction|reflexivity]. Qed.

Lemma unlink_at_complete g b t : is_complete (unlink_at g b t) = true -> unlink_at g b t = t.
Proof.
  unfold unlink_at. destruct (has_gen g t); [|reflexivity].
  destruct b; [discriminate|]. destruct (t_state t); try reflexivity. discriminate.
Qed.

Lemma complete_at_gen g data t : t_gen (complete_at g data t) = t_gen t.
Proof.
  unfold complete_at, has_gen. destruct (N.eqb_spec (t_gen t) g) as [E|E]; [simpl; auto|reflexivity].
Qed.

Lemma complete_at_other g data t : t_gen t <> g -> complete_at g data t = t.
Proof. intros H. unfold complete_at, has_gen. destruct (N.eqb_spec (t_gen t) g); [contradiction|reflexivity]. Qed.

Lemma complete_at_same g data t : t_gen t = g -> complete_at g data t = mkT g TComplete data.
Proof. intros H. unfold complete_at, has_gen. rewrite H, N.eqb_refl. reflexivity. Qed.

(* ---- what recovery looks at *)
Lemma ctabs_cong d d' : k_tabs d' = k_tabs d -> k_comp d' = k_comp d -> ctabs d' = ctabs d.
Proof. intros H1 H2. unfold ctabs, finish_comp. rewrite H1, H2. reflexivity. Qed.

Lemma inputs_of_cong d d' : k_comp d' = k_comp d -> inputs_of d' = inputs_of d.
Proof. intros H. unfold inputs_of. rewrite H. reflexivity. Qed.

Lemma ctabs_noflag d : inputs_of d = [] -> ctabs d = filter is_complete (k_tabs d).
Proof.
  intros H. unfold ctabs. rewrite finish_comp_eq. unfold inputs_of in H.
  destruct (k_comp d) as [[[| |[|g0 rest]] m c]|]; try reflexivity. discriminate.
Qed.

Lemma filter_filter' {A} (p q : A -> bool) l : filter p (filter q l) = filter (fun x => q x && p x) l.
Proof.
  induction l as [|x l IH]; simpl; [reflexivity|].
  destruct (q x); simpl; [destruct (p x); rewrite IH; reflexivity|exact IH].
Qed.

Definition liveb (d : disk) (t : tdir) : bool := notin d t && is_complete t.
Lemma live_eq d : live d = filter (liveb d) (k_tabs d).
Proof. unfold live. apply filter_filter'. Qed.

Lemma ctabs_of_live d d' :
  gsorted (k_tabs d) -> gsorted (k_tabs d') -> k_comp d' = k_comp d -> live d' = live d -> ctabs d' = ctabs d.
Proof. intros H1 H2 H3 H4. rewrite (ctabs_live d H1), (ctabs_live d' H2), H3, H4. reflexivity. Qed.

(* a table that recovery does not look at *)
Definition dead (d : disk) (g : N) : Prop := forall t, In t (k_tabs d) -> t_gen t = g -> liveb d t = false.

Lemma dead_input d g : mem_gen g (inputs_of d) = true -> dead d g.
Proof. intros H t _ E. unfold liveb, notin. rewrite E, H. reflexivity. Qed.

Lemma dead_incomplete d g : (forall t, In t (k_tabs d) -> t_gen t = g -> is_complete t = false) -> dead d g.
Proof. intros H t Ht E. unfold liveb. rewrite (H t Ht E). apply andb_false_r. Qed.

Lemma live_unlink d g b :
  dead d g -> live (mkDisk (map (unlink_at g b) (k_tabs d)) (k_wals d) (k_comp d)) = live d.
Proof.
  intros Hd. rewrite !live_eq. cbn [k_tabs].
  assert (forall t, liveb (mkDisk (map (unlink_at g b) (k_tabs d)) (k_wals d) (k_comp d)) t = liveb d t) as Hl
    by reflexivity.
  rewrite (filter_ext _ _ Hl). apply filter_map_id.
  - intros t Ht. destruct (N.eq_dec (t_gen t) g) as [E|E]; [|rewrite unlink_at_other by exact E; reflexivity].
    rewrite (Hd t Ht E). unfold liveb, notin. rewrite unlink_at_gen.
    destruct (is_complete (unlink_at g b t)) eqn:Ec; [|apply andb_false_r].
    pose proof (unlink_at_complete _ _ _ Ec) as Eu. rewrite Eu in Ec.
    pose proof (Hd t Ht E) as Hq. unfold liveb, notin in Hq. rewrite Ec in Hq. exact Hq.
  - intros t Ht Hq. destruct (N.eq_dec (t_gen t) g) as [E|E]; [|apply unlink_at_other; exact E].
    rewrite (Hd t Ht E) in Hq. discriminate.
Qed.

Lemma live_gone d g :
  dead d g -> live (mkDisk (remove_tab g (k_tabs d)) (k_wals d) (k_comp d)) = live d.
Proof.
  intros Hd. rewrite !live_eq. cbn [k_tabs]. unfold remove_tab. rewrite filter_filter'.
  apply filter_ext_in'. intros t Ht.
  change (liveb (mkDisk _ _ (k_comp d)) t) with (liveb d t).
  unfold has_gen. destruct (N.eqb_spec (t_gen t) g) as [E|E]; simpl; [|reflexivity].
  symmetry. apply Hd; assumption.
Qed.

Lemma live_mkdir d g :
  live (mkDisk (insert_tab (mkT g TPartial []) (k_tabs d)) (k_wals d) (k_comp d)) = live d.
Proof.
  rewrite !live_eq. cbn [k_tabs].
  change (liveb (mkDisk _ _ (k_comp d))) with (liveb d).
  apply filter_insert_false. unfold liveb. apply andb_false_r.
Qed.

Lemma live_complete d g data x :
  gsorted (k_tabs d) -> find_tab g (k_tabs d) = Some (mkT g TPartial x) ->
  (forall t, In t (k_tabs d) -> t_gen t <= g) -> mem_gen g (inputs_of d) = false ->
  live (mkDisk (map (complete_at g data) (k_tabs d)) (k_wals d) (k_comp d)) = live d ++ [mkT g TComplete data].
Proof.
  intros Hs Hf Hmax Hin. rewrite !live_eq. cbn [k_tabs].
  change (liveb (mkDisk _ _ (k_comp d))) with (liveb d).
  destruct (gsorted_last _ _ _ Hs Hf Hmax) as (ts0 & E & Hlt). rewrite E.
  rewrite map_app, !filter_app. simpl.
  rewrite complete_at_same by reflexivity.
  assert (map (complete_at g data) ts0 = ts0) as ->.
  { rewrite <- (map_id ts0) at 2. apply map_ext_in. intros t Ht. apply complete_at_other.
    specialize (Hlt t Ht). lia. }
  assert (liveb d (mkT g TPartial x) = false) as -> by (unfold liveb; apply andb_false_r).
  assert (liveb d (mkT g TComplete data) = true) as ->
    by (unfold liveb, notin; simpl; rewrite Hin; reflexivity).
  rewrite app_nil_r. reflexivity.
Qed.

(* ---- the effects keep the invariant *)
Definition nohalf_tabs (d : disk) : Prop := forall t, In t (k_tabs d) -> is_half t = false.

Definition op_ok (d : disk) (o : fsop) : Prop :=
  match o with
  | OTblComplete _ data => lsorted data
  | OTblUnlink g false => mem_gen g (inputs_of d) = true
  | OCompWritten merged => lsorted merged
  | OCompFlag f => nohalf_tabs d /\ match f with FlagGood l => l <> [] /\ NoDup l | _ => True end
  | OCompGone => inputs_of d = []
  | OCompRename => nohalf_tabs d
  | _ => True
  end.

Lemma nsorted_snoc l a : nsorted (l ++ [a]) <-> nsorted l /\ forall x, In x l -> x < a.
Proof.
  split.
  - intros H. apply nsorted_app_inv in H. destruct H as (H1 & _ & H3). split; [exact H1|].
    intros x Hx. apply H3; [exact Hx|left; reflexivity].
  - intros [H1 H2]. apply nsorted_app; [exact H1|constructor; constructor|].
    intros x y Hx [<-|[]]. apply H2. exact Hx.
Qed.

Lemma ap_wal_append d n m d' : fs_apply d (OWalAppend n m) = Some d' ->
  k_tabs d' = k_tabs d /\ k_comp d' = k_comp d /\ wal_records d' = wal_records d ++ [m]
  /\ (wsorted (k_wals d) -> wsorted (k_wals d')).
Proof.
  unfold fs_apply, wal_records, wsorted.
  destruct (rev (k_wals d)) as [|[n' recs] older] eqn:E.
  - intros H. inversion H. cbn [k_tabs k_comp k_wals].
    assert (k_wals d = []) as ->.
    { rewrite <- (rev_involutive (k_wals d)), E. reflexivity. }
    repeat split. intros _. simpl. constructor; constructor.
  - assert (k_wals d = rev older ++ [(n', recs)]) as Ew.
    { rewrite <- (rev_involutive (k_wals d)), E. reflexivity. }
    destruct (N.eqb_spec n' n) as [->|Hne].
    + intros H. inversion H. cbn [k_tabs k_comp k_wals]. rewrite Ew. repeat split.
      * rewrite !flat_map_app. simpl. rewrite !app_nil_r, app_assoc. reflexivity.
      * rewrite !map_app. simpl. auto.
    + destruct (N.ltb_spec n' n) as [Hlt|Hge]; [|discriminate].
      intros H. inversion H. cbn [k_tabs k_comp k_wals]. repeat split.
      * rewrite flat_map_app. simpl. reflexivity.
      * intros Hs. rewrite map_app. simpl. apply nsorted_snoc. split; [exact Hs|].
        rewrite Ew, map_app in Hs |- *. simpl in *. apply nsorted_snoc in Hs. destruct Hs as [_ Hs].
        intros x Hx. apply in_app_or in Hx. destruct Hx as [Hx|[<-|[]]]; [|exact Hlt].
        specialize (Hs x Hx). lia.
Qed.

Lemma DInv_cong_wals d d' :
  k_tabs d' = k_tabs d -> k_comp d' = k_comp d -> wsorted (k_wals d') -> DInv d -> DInv d'.
Proof.
  intros Ht Hc Hw [H1 H2 H3 H4 H5 H6]. constructor; unfold inputs_of in *; rewrite ?Ht, ?Hc; auto.
Qed.

Lemma wsorted_filter p ws : wsorted ws -> wsorted (filter p ws).
Proof.
  unfold wsorted. induction ws as [|w ws IH]; simpl; intros H; [constructor|].
  inversion H as [|? ? Hs Hall]; subst. destruct (p w); simpl; [|apply IH; exact Hs].
  constructor; [apply IH; exact Hs|]. apply Forall_forall. intros x Hx.
  apply in_map_iff in Hx. destruct Hx as (y & <- & Hy). apply filter_In in Hy. destruct Hy as [Hy _].
  rewrite Forall_forall in Hall. apply Hall. apply in_map. exact Hy.
Qed.

(* tables change, WAL and compaction directory stay *)
Lemma DInv_tabs d ts :
  DInv d -> gsorted ts -> Forall (fun t => lsorted (t_data t)) ts ->
  (forall t, In t ts -> is_half t = true -> mem_gen (t_gen t) (inputs_of d) = true) ->
  DInv (mkDisk ts (k_wals d) (k_comp d)).
Proof.
  intros [H1 H2 H3 H4 H5 H6] Hs Hd Hh. constructor; cbn [k_tabs k_wals k_comp]; auto.
Qed.

Lemma Forall_insert (P : tdir -> Prop) t ts : P t -> Forall P ts -> Forall P (insert_tab t ts).
Proof.
  intros Ht Hts. apply Forall_forall. intros x Hx. apply In_insert in Hx. destruct Hx as [->|Hx]; [exact Ht|].
  rewrite Forall_forall in Hts. apply Hts. exact Hx.
Qed.

Lemma Forall_map_tab (P : tdir -> Prop) f ts : (forall t, P t -> P (f t)) -> Forall P ts -> Forall P (map f ts).
Proof.
  intros Hf Hts. apply Forall_forall. intros x Hx. apply in_map_iff in Hx. destruct Hx as (y & <- & Hy).
  apply Hf. rewrite Forall_forall in Hts. apply Hts. exact Hy.
Qed.

Lemma DInv_apply d o d' : DInv d -> op_ok d o -> fs_apply d o = Some d' -> DInv d'.
Proof.
  intros Hinv Hok Hap. destruct o as [n m|n| |g|g data|g b|g| |merged|f| | |].
  - (* append *)
    destruct (ap_wal_append _ _ _ _ Hap) as (Ht & Hc & _ & Hw).
    eapply DInv_cong_wals; eauto. apply Hw. apply Hinv.
  - (* remove *)
    unfold fs_apply in Hap. destruct (existsb _ _); [|discriminate]. inversion Hap.
    apply (DInv_cong_wals d); [reflexivity|reflexivity| |exact Hinv]. apply wsorted_filter. apply Hinv.
  - (* clear *)
    inversion Hap. apply (DInv_cong_wals d); [reflexivity|reflexivity| |exact Hinv]. constructor.
  - (* mkdir *)
    apply ap_mkdir in Hap. destruct Hap as [Hf ->]. apply DInv_tabs; [exact Hinv| | |].
    + apply gsorted_insert; [apply Hinv|exact Hf].
    + apply Forall_insert; [apply lsorted_nil|apply Hinv].
    + intros t Ht Hh. apply In_insert in Ht. destruct Ht as [->|Ht]; [discriminate|].
      apply (di_half d Hinv t Ht Hh).
  - (* complete *)
    apply ap_complete in Hap. destruct Hap as [_ ->]. apply DInv_tabs; [exact Hinv| | |].
    + apply gsorted_map; [apply complete_at_gen|apply Hinv].
    + apply Forall_map_tab; [|apply Hinv]. intros t Ht. unfold complete_at.
      destruct (has_gen g t); [exact Hok|exact Ht].
    + intros t Ht Hh. apply in_map_iff in Ht. destruct Ht as (y & <- & Hy).
      unfold complete_at in *. destruct (has_gen g y); [discriminate|].
      apply (di_half d Hinv y Hy Hh).
  - (* unlink *)
    apply ap_unlink in Hap. destruct Hap as [_ ->]. apply DInv_tabs; [exact Hinv| | |].
    + apply gsorted_map; [apply unlink_at_gen|apply Hinv].
    + apply Forall_map_tab; [|apply Hinv]. intros t Ht. rewrite unlink_at_data. exact Ht.
    + intros t Ht Hh. apply in_map_iff in Ht. destruct Ht as (y & <- & Hy).
      rewrite unlink_at_gen. unfold unlink_at in Hh. unfold has_gen in Hh.
      destruct (N.eqb_spec (t_gen y) g) as [E|E]; [|apply (di_half d Hinv y Hy Hh)].
      destruct b; [discriminate|]. simpl in Hok.
      destruct (t_state y) eqn:Es; try (rewrite E; exact Hok).
  - (* gone *)
    apply ap_gone in Hap. destruct Hap as [_ ->]. apply DInv_tabs; [exact Hinv| | |].
    + apply gsorted_filter. apply Hinv.
    + apply Forall_filter. apply Hinv.
    + intros t Ht Hh. apply filter_In in Ht. destruct Ht as [Ht _]. apply (di_half d Hinv t Ht Hh).
  - (* comp mkdir *)
    unfold fs_apply in Hap. destruct (k_comp d) eqn:Ec; [discriminate|]. inversion Hap.
    destruct Hinv as [H1 H2 H3 H4 H5 H6]. unfold inputs_of in H5. rewrite Ec in H5.
    constructor; cbn [k_tabs k_wals k_comp]; auto.
    + intros c Hc. inversion Hc. apply lsorted_nil.
    + intros l m c Hc. discriminate.
  - (* written *)
    unfold fs_apply in Hap. destruct (k_comp d) as [c0|] eqn:Ec; [|discriminate]. inversion Hap.
    destruct Hinv as [H1 H2 H3 H4 H5 H6]. unfold inputs_of in H5. rewrite Ec in H5.
    constructor; cbn [k_tabs k_wals k_comp]; auto.
    + intros c Hc. inversion Hc. exact Hok.
    + intros t Ht Hh. specialize (H5 t Ht Hh). unfold inputs_of. cbn [k_comp].
      destruct c0 as [[| |l] m0 c0]; exact H5.
    + intros l m c Hc. inversion Hc. destruct c0 as [fl m0 cc]. simpl in *. subst fl. eapply H6. exact Ec.
  - (* flag *)
    unfold fs_apply in Hap. destruct (k_comp d) as [c0|] eqn:Ec; [|discriminate]. inversion Hap.
    destruct Hok as [Hnh Hf]. destruct Hinv as [H1 H2 H3 H4 H5 H6].
    constructor; cbn [k_tabs k_wals k_comp]; auto.
    + intros c Hc. inversion Hc. apply (H4 _ Ec).
    + intros t Ht Hh. rewrite (Hnh t Ht) in Hh. discriminate.
    + intros l m c Hc. inversion Hc. subst f. exact Hf.
  - (* damage *)
    unfold fs_apply in Hap. destruct (k_comp d) as [[fl m0 cc]|] eqn:Ec; [|discriminate].
    destruct Hinv as [H1 H2 H3 H4 H5 H6]. unfold inputs_of in H5. rewrite Ec in H5.
    destruct fl; inversion Hap; constructor; cbn [k_tabs k_wals k_comp]; auto;
      try (intros c Hc; inversion Hc; apply lsorted_nil); intros l m c Hc; discriminate.
  - (* comp gone *)
    unfold fs_apply in Hap. destruct (k_comp d) as [c0|] eqn:Ec; [|discriminate]. inversion Hap.
    simpl in Hok. destruct Hinv as [H1 H2 H3 H4 H5 H6]. rewrite Hok in H5.
    constructor; cbn [k_tabs k_wals k_comp]; auto; try discriminate.
  - (* rename *)
    apply ap_rename in Hap. destruct Hap as (g0 & rest & m & c & Ec & Hf & ->).
    simpl in Hok. destruct Hinv as [H1 H2 H3 H4 H5 H6].
    constructor; cbn [k_tabs k_wals k_comp]; auto; try discriminate.
    + apply gsorted_insert; [exact H1|exact Hf].
    + apply Forall_insert; [|exact H3]. apply (H4 _ Ec).
    + intros t Ht Hh. apply In_insert in Ht. destruct Ht as [->|Ht]; [destruct c; discriminate|].
      rewrite (Hok t Ht) in Hh. discriminate.
Qed.
