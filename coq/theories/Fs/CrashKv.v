(* Helper lemmas for Fs/CrashFacts.v, part 1: replaying logs into maps and tables, and the
   characterisation of [view] as "complete tables, then the WAL". *)
From Coq Require Import Lia Sorting.Sorted.
From GoSST Require Import Base.Bytes Base.Order Db.Logical Db.LogicalFacts Fs.Crash.
Local Open Scope N_scope.

Lemma reads_as_eff v : reads_as v = eff v.
Proof. reflexivity. Qed.

(* ---- logs: the last mutation of a key decides *)
Definition mut_key (x : mutation) : bytes := match x with MPut k _ => k | MDel k => k end.
Definition mut_val (x : mutation) : option bytes :=
  match x with MPut _ v => reads_as (Some (Some v)) | MDel _ => None end.

Fixpoint last_mut (k : bytes) (xs : list mutation) : option (option bytes) :=
  match xs with
  | [] => None
  | x :: r => match last_mut k r with
              | Some v => Some v
              | None => if beqb k (mut_key x) then Some (mut_val x) else None
              end
  end.

Lemma kv_mut_key m x k : kv_mut m x k = if beqb k (mut_key x) then mut_val x else m k.
Proof. destruct x; reflexivity. Qed.

Lemma kv_after_last xs : forall m k,
  kv_after m xs k = match last_mut k xs with Some v => v | None => m k end.
Proof.
  induction xs as [|x r IH]; intros m k; simpl; [reflexivity|].
  unfold kv_after in *. simpl. rewrite IH.
  destruct (last_mut k r); [reflexivity|]. rewrite kv_mut_key.
  destruct (beqb k (mut_key x)); reflexivity.
Qed.

Lemma last_mut_app k a : forall b, last_mut k (a ++ b) = orelse (last_mut k b) (last_mut k a).
Proof.
  induction a as [|x a IH]; intros b; simpl.
  - destruct (last_mut k b); reflexivity.
  - rewrite IH. destruct (last_mut k b); simpl; [reflexivity|].
    destruct (last_mut k a); reflexivity.
Qed.

Lemma kv_after_app m a b : kv_after m (a ++ b) = kv_after (kv_after m a) b.
Proof. unfold kv_after. apply fold_left_app. Qed.

Lemma kv_after_ext a b xs : kv_eq a b -> kv_eq (kv_after a xs) (kv_after b xs).
Proof. intros H k. rewrite !kv_after_last. destruct (last_mut k xs); [reflexivity|apply H]. Qed.

Lemma kv_eq_refl a : kv_eq a a.
Proof. intros k. reflexivity. Qed.
Lemma kv_eq_sym a b : kv_eq a b -> kv_eq b a.
Proof. intros H k. symmetry. apply H. Qed.
Lemma kv_eq_trans a b c : kv_eq a b -> kv_eq b c -> kv_eq a c.
Proof. intros H1 H2 k. rewrite H1. apply H2. Qed.

(* replaying a suffix of a log again changes nothing *)
Lemma kv_after_suffix m a s : kv_eq (kv_after (kv_after m (a ++ s)) s) (kv_after m (a ++ s)).
Proof.
  intros k. rewrite <- kv_after_app. rewrite !kv_after_last. rewrite !last_mut_app.
  destruct (last_mut k s); reflexivity.
Qed.

Lemma kv_after_twice m s : kv_eq (kv_after (kv_after m s) s) (kv_after m s).
Proof. apply (kv_after_suffix m [] s). Qed.

(* ---- a log replayed into a table *)
Lemma store_kv recs : forall (t : ltable) (x : bytes -> option mval) (m : kvmap),
  (forall k, reads_as (orelse (lt_get k t) (x k)) = m k) ->
  forall k, reads_as (orelse (lt_get k (fold_left apply_mut recs t)) (x k)) = kv_after m recs k.
Proof.
  induction recs as [|r recs IH]; intros t x m H k; simpl; [apply H|].
  unfold kv_after. simpl. apply IH. intros k'.
  destruct r as [k0 v0|k0]; simpl; rewrite lt_get_set; destruct (beqb k' k0); simpl; auto.
Qed.

Lemma store_of_kv recs x k :
  reads_as (orelse (lt_get k (store_of recs)) (x k)) = kv_after (fun k => reads_as (x k)) recs k.
Proof. unfold store_of. apply store_kv. intros k'. reflexivity. Qed.

Lemma store_of_sorted recs : lsorted (store_of recs).
Proof.
  unfold store_of. assert (forall t, lsorted t -> lsorted (fold_left apply_mut recs t)) as H.
  { induction recs as [|r recs IH]; intros t Ht; simpl; [exact Ht|].
    apply IH. destruct r; simpl; apply lt_set_sorted; exact Ht. }
  apply H. apply lsorted_nil.
Qed.

(* ---- tables *)
Definition tpairs (ts : list tdir) : list (N * ltable) := map (fun t => (t_gen t, t_data t)) ts.

Lemma tabs_get_snoc ts t k :
  tabs_get (ts ++ [t]) k = reads_as (orelse (lt_get k (t_data t)) (tables_get (tpairs ts) k)).
Proof.
  unfold tabs_get. rewrite map_app. simpl. rewrite tables_get_app, tables_get_one. reflexivity.
Qed.

Lemma tabs_get_store ts g st recs k :
  tabs_get (ts ++ [mkT g st (store_of recs)]) k = kv_after (tabs_get ts) recs k.
Proof. rewrite tabs_get_snoc. simpl. rewrite store_of_kv. reflexivity. Qed.

(* ---- recovery in closed form *)
Definition ctabs (d : disk) : list tdir := filter is_complete (finish_comp d).
Definition newtab (d : disk) : list tdir :=
  match wal_records d with
  | [] => []
  | recs => [mkT (max_gen (ctabs d) + 1) TComplete (store_of recs)]
  end.
Definition nohalf (d : disk) : Prop := existsb is_half (finish_comp d) = false.
Definition dview (d : disk) : kvmap := kv_after (tabs_get (ctabs d)) (wal_records d).

Lemma recover_char d :
  recover d = if existsb is_half (finish_comp d) then None else Some (mkDisk (ctabs d ++ newtab d) [] None).
Proof.
  unfold recover, newtab, ctabs. destruct (existsb is_half (finish_comp d)); [reflexivity|].
  destruct (wal_records d); [rewrite app_nil_r|]; reflexivity.
Qed.

Lemma recover_nohalf d : nohalf d -> recover d = Some (mkDisk (ctabs d ++ newtab d) [] None).
Proof. intros H. rewrite recover_char, H. reflexivity. Qed.

Lemma tabs_get_newtab d k : tabs_get (ctabs d ++ newtab d) k = dview d k.
Proof.
  unfold newtab, dview. destruct (wal_records d) as [|r recs] eqn:E.
  - rewrite app_nil_r. reflexivity.
  - apply tabs_get_store.
Qed.

Lemma view_dview d : nohalf d -> exists m, view d = Some m /\ kv_eq m (dview d).
Proof.
  intros H. unfold view. rewrite (recover_nohalf d H). eexists. split; [reflexivity|].
  intros k. simpl. apply tabs_get_newtab.
Qed.

Lemma view_some d m : view d = Some m -> nohalf d /\ kv_eq m (dview d).
Proof.
  unfold view. rewrite recover_char. unfold nohalf.
  destruct (existsb is_half (finish_comp d)); [discriminate|].
  intros H. inversion H; subst. split; [reflexivity|]. intros k. simpl. apply tabs_get_newtab.
Qed.
