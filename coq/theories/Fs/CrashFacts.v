(* Proofs about the crash model (Fs/Crash.v).  The development is split over
   Fs/CrashKv.v (logs, maps, tables; [view] in closed form), Fs/CrashDisk.v (table lists, the disk
   invariant [DInv]), Fs/CrashOps.v (every effect keeps [DInv]), Fs/CrashRec.v (recovery as a program
   that can be cut), Fs/CrashSteps.v (effects of a session) and Fs/CrashSess.v (the session invariant). *)
From Coq Require Import Lia.
From GoSST Require Import Base.Bytes Db.Logical Db.LogicalFacts Fs.Crash.
From GoSST Require Import Fs.CrashKv Fs.CrashDisk Fs.CrashOps Fs.CrashRec Fs.CrashSteps Fs.CrashSess.
Local Open Scope N_scope.

Definition is_prefix {A} (a b : list A) : Prop := exists c, b = a ++ c.

(* ---- every reachable disk satisfies the disk invariant *)
Lemma DInv_empty : DInv disk_empty.
Proof.
  constructor; simpl; try discriminate; try constructor. intros t [].
Qed.

Lemma Reach_DInv d : Reach d -> DInv d.
Proof.
  induction 1 as [|d d1 async acts s _ IH Hrec Hrun|d n d' _ IH Hcut].
  - apply DInv_empty.
  - destruct (DInv_view d IH) as (base & Hview & _).
    pose proof (SInv_init d d1 base async IH Hrec Hview) as Hinit.
    pose proof (SInv_run base acts _ _ Hinit Hrun) as Hs. apply Hs.
  - apply (rec_cut_keeps d n d' IH Hcut).
Qed.

Lemma sstep_async s a s' : sstep s a = Some s' -> s_async s' = s_async s.
Proof.
  intros Hs. destruct s as [d async tables wr cur gen fl comp buf cl acked mark].
  unfold sstep in Hs. sproj_in Hs. sproj.
  destruct a as [m| | | |n| | |skip len|].
  - destruct cl; try discriminate. destruct (mut_ok m); inversion Hs. reflexivity.
  - destruct cl; try discriminate. destruct async.
    + inversion Hs. reflexivity.
    + destruct (fs_apply d (OWalAppend cur m)); inversion Hs. reflexivity.
  - destruct cl; inversion Hs. reflexivity.
  - destruct cl; inversion Hs. reflexivity.
  - destruct async; [|discriminate]. destruct (append_all d cur (firstn n buf)); inversion Hs. reflexivity.
  - destruct cl; try discriminate; destruct fl; try discriminate;
      destruct (append_all d cur buf); inversion Hs; reflexivity.
  - destruct fl as [[[[w ms] ph] g]|]; [|discriminate]. cbv zeta in Hs.
    destruct (ph =? 0).
    { destruct ms; [inversion Hs; reflexivity|].
      destruct (fs_apply d (OTblMkdir (gen + 1))); inversion Hs. reflexivity. }
    destruct (ph =? 1).
    { destruct (fs_apply d (OTblComplete g (store_of ms))); inversion Hs. reflexivity. }
    destruct (ph =? 2).
    { destruct (fs_apply d (OWalRemove w)); inversion Hs. reflexivity. }
    inversion Hs. reflexivity.
  - destruct comp; try discriminate. destruct (firstn len (skipn skip tables)); [discriminate|].
    destruct (fs_apply d OCompMkdir); inversion Hs. reflexivity.
  - destruct comp as [|i mg|i mg|i mg|i todo]; [discriminate| | | |].
    + destruct (fs_apply d (OCompWritten mg)); inversion Hs. reflexivity.
    + destruct (fs_apply d (OCompFlag FlagBad)); inversion Hs. reflexivity.
    + destruct (fs_apply d (OCompFlag (FlagGood i))); inversion Hs. reflexivity.
    + destruct todo as [|o todo].
      * destruct i; inversion Hs. reflexivity.
      * destruct (fs_apply d o); inversion Hs. reflexivity.
Qed.

Lemma srun_async acts : forall s s', srun s acts = Some s' -> s_async s' = s_async s.
Proof.
  induction acts as [|a acts IH]; intros s s' Hr; simpl in Hr.
  - inversion Hr. reflexivity.
  - destruct (sstep s a) as [s1|] eqn:Hs; [|discriminate].
    rewrite (IH _ _ Hr). apply (sstep_async _ _ _ Hs).
Qed.

(* what a crashed session leaves: the state after a prefix of the operations handed to the WAL *)
Lemma session_view d d1 base async acts s :
  Reach d -> recover d = Some d1 -> view d = Some base -> srun (sess_init async d1) acts = Some s ->
  exists m p, view (s_disk s) = Some m /\ kv_eq m (kv_after base p)
              /\ p ++ s_buf s = s_acked s ++ logged_of (s_client s)
              /\ (s_mark s <= length p)%nat /\ (async = false -> s_buf s = []).
Proof.
  intros Hr Hrec Hview Hrun. pose proof (Reach_DInv d Hr) as Hi.
  pose proof (SInv_run base acts _ _ (SInv_init d d1 base async Hi Hrec Hview) Hrun) as Hs.
  pose proof (srun_async acts _ _ Hrun) as Ha. simpl in Ha.
  unfold SInv in Hs. si_destruct Hs. destruct HV as (p & Hp & Hv & Hm).
  destruct (DInv_view (s_disk s) HD) as (m & Hm1 & Hm2).
  exists m, p. split; [exact Hm1|]. split; [eapply kv_eq_trans; [exact Hm2|exact Hv]|].
  split; [exact Hp|]. split; [exact Hm|]. intros E. apply HB. rewrite Ha. exact E.
Qed.

(* every disk a process can leave behind is recoverable *)
Theorem reachable_recovers (d : disk) : Reach d -> exists d', recover d = Some d'.
Proof.
  intros Hr. eexists. apply DInv_recover. apply Reach_DInv. exact Hr.
Qed.

(* the step-by-step recovery program ends in the disk [recover] describes *)
Theorem rec_prog_is_recover (d : disk) :
  Reach d -> exists p d', rec_prog d = Some p /\ fs_run d p = Some d' /\ recover d = Some d'.
Proof.
  intros Hr. apply rec_prog_ok. apply Reach_DInv. exact Hr.
Qed.

(* C10: a recovery cut after any number of its effects - and again, any number of times - leaves a disk
   that recovers to the same content as the uninterrupted recovery *)
Theorem recovery_idempotent (d d' : disk) :
  Reach d -> rec_reach d d' ->
  exists m m', view d = Some m /\ view d' = Some m' /\ kv_eq m m'.
Proof.
  intros Hr Hreach. pose proof (Reach_DInv d Hr) as Hi.
  destruct (rec_reach_keeps d d' Hreach Hi) as [Hi' Hv].
  destruct (DInv_view d Hi) as (m & Hm1 & Hm2). destruct (DInv_view d' Hi') as (m' & Hm1' & Hm2').
  exists m, m'. split; [exact Hm1|]. split; [exact Hm1'|].
  eapply kv_eq_trans; [exact Hm2|]. apply kv_eq_sym. eapply kv_eq_trans; [exact Hm2'|exact Hv].
Qed.

(* C02: synchronous WAL.  Whatever the interleaving of the client thread, the flusher and the compactor,
   and wherever it is cut, the directory recovers to exactly the operations that have returned; the one in
   flight may or may not be there *)
Theorem sync_crash_safe (d d1 : disk) (base : kvmap) (acts : list saction) (s : sess) :
  Reach d -> recover d = Some d1 -> view d = Some base ->
  srun (sess_init false d1) acts = Some s ->
  exists m, view (s_disk s) = Some m /\
            (kv_eq m (kv_after base (s_acked s)) \/ kv_eq m (kv_after base (s_acked s ++ inflight s))).
Proof.
  intros Hr Hrec Hview Hrun.
  destruct (session_view d d1 base false acts s Hr Hrec Hview Hrun) as (m & p & Hm & Hv & Hp & _ & Hb).
  rewrite (Hb eq_refl), app_nil_r in Hp. subst p.
  exists m. split; [exact Hm|]. unfold inflight. destruct (s_client s); simpl in Hv.
  - left. rewrite app_nil_r in Hv. exact Hv.
  - left. rewrite app_nil_r in Hv. exact Hv.
  - right. exact Hv.
  - right. exact Hv.
Qed.

(* C13: asynchronous WAL.  The directory recovers to the state after a prefix of the operation sequence
   that contains at least everything applied before the last rotation *)
Theorem async_crash_prefix (d d1 : disk) (base : kvmap) (acts : list saction) (s : sess) :
  Reach d -> recover d = Some d1 -> view d = Some base ->
  srun (sess_init true d1) acts = Some s ->
  exists m p, view (s_disk s) = Some m /\ is_prefix p (s_acked s ++ inflight s) /\
              (s_mark s <= length p)%nat /\ kv_eq m (kv_after base p).
Proof.
  intros Hr Hrec Hview Hrun.
  destruct (session_view d d1 base true acts s Hr Hrec Hview Hrun) as (m & p & Hm & Hv & Hp & Hmark & _).
  exists m, p. split; [exact Hm|]. split; [|split; [exact Hmark|exact Hv]].
  unfold is_prefix, inflight. destruct (s_client s) as [|x|x|x]; simpl in Hp.
  - exists (s_buf s). symmetry. exact Hp.
  - exists (s_buf s ++ [x]). rewrite app_assoc, Hp, app_nil_r. reflexivity.
  - exists (s_buf s). symmetry. exact Hp.
  - exists (s_buf s). symmetry. exact Hp.
Qed.

(* non-vacuity: a session with a flush and a compaction that is cut inside reflect, then recovered in
   two attempts *)
Example crash_session :
  let acts := [SBegin (MPut [1] [10]); SLog; SApply; SReturn; SBegin (MPut [2] [20]); SLog; SApply; SRotate; SReturn;
               SFlush; SFlush; SBegin (MDel [1]); SLog; SFlush; SApply; SReturn; SFlush; SRotate; SFlush; SFlush; SFlush; SFlush;
               SCompStart 0 2; SComp; SComp; SComp; SComp; SComp; SComp; SComp] in
  match srun (sess_init false disk_empty) acts with
  | Some s =>
      k_comp (s_disk s) = Some (mkCd (FlagGood [1; 2]) [([2], Some [20])] true)
      /\ (match view (s_disk s) with Some m => (m [1], m [2]) | None => (Some [0], Some [0]) end) = (None, Some [20])
      /\ (match rec_cut (s_disk s) 2 with
          | Some d' => match view d' with Some m => (m [1], m [2]) | None => (Some [0], Some [0]) end
          | None => (Some [0], Some [0]) end) = (None, Some [20])
  | None => False
  end.
Proof.
  cbv zeta. vm_compute. repeat split; reflexivity.
Qed.

Print Assumptions reachable_recovers.
Print Assumptions rec_prog_is_recover.
Print Assumptions recovery_idempotent.
Print Assumptions sync_crash_safe.
Print Assumptions async_crash_prefix.
Print Assumptions crash_session.
