(* The persistent state of a SimpleDB directory and everything that changes it, one atomic file
   system effect at a time: the client thread (WAL), the flusher (table directory, WAL removal),
   the compactor (compaction directory, success flag, removal of the inputs, rename) and recovery
   (finish or discard a compaction, drop incomplete tables, replay the WAL into a new table, clear
   the WAL directory).  A crash (kill -9: completed system calls persist) leaves exactly the disk
   of the moment; [recover] is what an uninterrupted Open makes of it and [view] what the database
   then reads as.  The abstraction of real directory images to [disk] is computed by the harness
   (c02.go: absImage) at every system-call boundary of traced sessions and recoveries; the
   correspondence checks [view] and [recover] against the real Open on those images and that every
   observed change of the abstract disk is one of the effects below. *)
From GoSST Require Import Base.Bytes Db.Logical.
Local Open Scope N_scope.

(* ---- WAL records *)
Inductive mutation := MPut (k v : bytes) | MDel (k : bytes).
Definition apply_mut (t : ltable) (m : mutation) : ltable :=
  match m with MPut k v => lt_set k (Some v) t | MDel k => lt_set k None t end.
Definition store_of (ms : list mutation) : ltable := fold_left apply_mut ms [].
(* what PutBytes / DeleteBytes log: puts carry a non-empty key and value *)
Definition mut_ok (m : mutation) : bool :=
  match m with MPut (_ :: _) (_ :: _) => true | MPut _ _ => false | MDel _ => true end.

(* ---- the directory *)
Inductive tstate :=
| TPartial     (* directory exists, metadata file missing or empty: the writer never finished *)
| TComplete
| THalf.       (* metadata present but other files already unlinked: a RemoveAll in progress *)
Record tdir := mkT { t_gen : N; t_state : tstate; t_data : ltable }.

Inductive cflag :=
| FlagNone
| FlagBad                        (* the success file exists but cannot be read *)
| FlagGood (inputs : list N).    (* readable: the generations of the inputs, the first is the replacement *)
Record cdir := mkCd { cd_flag : cflag; cd_merged : ltable; cd_complete : bool }.

Record disk := mkDisk {
  k_tabs : list tdir;                     (* sorted by generation *)
  k_wals : list (N * list mutation);      (* WAL files that hold at least one complete record, in name order: number, records
                                             (files without a complete record - just created, header only, torn first
                                             record - are invisible to recovery and left out) *)
  k_comp : option cdir
}.
Definition disk_empty : disk := mkDisk [] [] None.

Definition is_complete (t : tdir) : bool := match t_state t with TComplete => true | _ => false end.
Definition is_half (t : tdir) : bool := match t_state t with THalf => true | _ => false end.
Definition has_gen (g : N) (t : tdir) : bool := t_gen t =? g.
Definition mem_gen (g : N) (l : list N) : bool := existsb (N.eqb g) l.

Fixpoint insert_tab (t : tdir) (ts : list tdir) : list tdir :=
  match ts with
  | [] => [t]
  | x :: r => if t_gen t <? t_gen x then t :: x :: r else x :: insert_tab t r
  end.
Definition remove_tab (g : N) (ts : list tdir) : list tdir := filter (fun t => negb (has_gen g t)) ts.
Definition find_tab (g : N) (ts : list tdir) : option tdir := find (has_gen g) ts.
Definition max_gen (ts : list tdir) : N := fold_left N.max (map t_gen ts) 0.

(* ---- one atomic effect *)
Inductive fsop :=
| OWalAppend (n : N) (m : mutation)       (* a complete record reaches file n, the newest *)
| OWalRemove (n : N)
| OWalClear                               (* the WAL directory is removed and created again *)
| OTblMkdir (g : N)
| OTblComplete (g : N) (data : ltable)    (* the metadata file is written: the table is complete *)
| OTblUnlink (g : N) (meta_gone : bool)   (* RemoveAll has unlinked files of the directory; with or without the metadata file *)
| OTblGone (g : N)
| OCompMkdir
| OCompWritten (merged : ltable)          (* the merged table inside the compaction directory is complete *)
| OCompFlag (f : cflag)
| OCompDamage                             (* RemoveAll of a compaction directory without readable flag is under way *)
| OCompGone
| OCompRename.

Definition fs_apply (d : disk) (o : fsop) : option disk :=
  match o with
  | OWalAppend n m =>
      match rev (k_wals d) with
      | (n', recs) :: older =>
          if n' =? n then Some (mkDisk (k_tabs d) (rev older ++ [(n, recs ++ [m])]) (k_comp d))
          else if n' <? n then Some (mkDisk (k_tabs d) (k_wals d ++ [(n, [m])]) (k_comp d))
          else None
      | [] => Some (mkDisk (k_tabs d) [(n, [m])] (k_comp d))
      end
  | OWalRemove n =>
      if existsb (fun w => fst w =? n) (k_wals d)
      then Some (mkDisk (k_tabs d) (filter (fun w => negb (fst w =? n)) (k_wals d)) (k_comp d)) else None
  | OWalClear => Some (mkDisk (k_tabs d) [] (k_comp d))
  | OTblMkdir g =>
      match find_tab g (k_tabs d) with
      | Some _ => None
      | None => Some (mkDisk (insert_tab (mkT g TPartial []) (k_tabs d)) (k_wals d) (k_comp d))
      end
  | OTblComplete g data =>
      match find_tab g (k_tabs d) with
      | Some (mkT _ TPartial _) =>
          Some (mkDisk (map (fun t => if has_gen g t then mkT g TComplete data else t) (k_tabs d)) (k_wals d) (k_comp d))
      | _ => None
      end
  | OTblUnlink g meta_gone =>
      match find_tab g (k_tabs d) with
      | Some _ =>
          Some (mkDisk (map (fun t => if has_gen g t
                                      then (if meta_gone then mkT g TPartial (t_data t)
                                            else match t_state t with TComplete => mkT g THalf (t_data t) | _ => t end)
                                      else t) (k_tabs d)) (k_wals d) (k_comp d))
      | None => None
      end
  | OTblGone g =>
      match find_tab g (k_tabs d) with
      | Some _ => Some (mkDisk (remove_tab g (k_tabs d)) (k_wals d) (k_comp d))
      | None => None
      end
  | OCompMkdir =>
      match k_comp d with
      | None => Some (mkDisk (k_tabs d) (k_wals d) (Some (mkCd FlagNone [] false)))
      | Some _ => None
      end
  | OCompWritten merged =>
      match k_comp d with
      | Some c => Some (mkDisk (k_tabs d) (k_wals d) (Some (mkCd (cd_flag c) merged true)))
      | None => None
      end
  | OCompFlag f =>
      match k_comp d with
      | Some c => Some (mkDisk (k_tabs d) (k_wals d) (Some (mkCd f (cd_merged c) (cd_complete c))))
      | None => None
      end
  | OCompDamage =>
      match k_comp d with
      | Some (mkCd (FlagGood _) _ _) => None
      | Some c => Some (mkDisk (k_tabs d) (k_wals d) (Some (mkCd (cd_flag c) [] false)))
      | None => None
      end
  | OCompGone =>
      match k_comp d with
      | Some _ => Some (mkDisk (k_tabs d) (k_wals d) None)
      | None => None
      end
  | OCompRename =>
      match k_comp d with
      | Some (mkCd (FlagGood (g0 :: _)) merged complete) =>
          match find_tab g0 (k_tabs d) with
          | Some _ => None                         (* rename onto an existing, non-empty directory fails *)
          | None => Some (mkDisk (insert_tab (mkT g0 (if complete then TComplete else TPartial) merged) (k_tabs d)) (k_wals d) None)
          end
      | _ => None
      end
  end.

Fixpoint fs_run (d : disk) (ops : list fsop) : option disk :=
  match ops with
  | [] => Some d
  | o :: r => match fs_apply d o with Some d' => fs_run d' r | None => None end
  end.

(* ---- recovery: what an uninterrupted Open makes of a disk *)
Definition finish_comp (d : disk) : list tdir :=
  match k_comp d with
  | Some (mkCd (FlagGood (g0 :: rest)) merged complete) =>
      insert_tab (mkT g0 (if complete then TComplete else TPartial) merged)
                 (filter (fun t => negb (mem_gen (t_gen t) (g0 :: rest))) (k_tabs d))
  | _ => k_tabs d
  end.

Definition wal_records (d : disk) : list mutation := flat_map snd (k_wals d).

(* None: Open fails *)
Definition recover (d : disk) : option disk :=
  let ts1 := finish_comp d in
  if existsb is_half ts1 then None else
  let ts2 := filter is_complete ts1 in
  let ts3 := match wal_records d with
             | [] => ts2
             | recs => ts2 ++ [mkT (max_gen ts2 + 1) TComplete (store_of recs)]
             end in
  Some (mkDisk ts3 [] None).

Definition reads_as (v : option mval) : option bytes :=
  match v with Some (Some (b :: r)) => Some (b :: r) | _ => None end.
Definition tabs_get (ts : list tdir) (k : bytes) : option bytes :=
  reads_as (tables_get (map (fun t => (t_gen t, t_data t)) ts) k).

(* what the database reads as after recovery; None: Open fails *)
Definition view (d : disk) : option (bytes -> option bytes) :=
  match recover d with
  | Some d' => Some (tabs_get (k_tabs d'))
  | None => None
  end.

(* recovery as the sequence of atomic effects the code performs (simpledb/recovery.go), so that it
   can itself be cut anywhere *)
Definition rec_comp_prog (d : disk) : list fsop :=
  match k_comp d with
  | None => []
  | Some (mkCd (FlagGood (g0 :: rest)) _ _) =>
      flat_map (fun g => match find_tab g (k_tabs d) with Some _ => [OTblUnlink g false; OTblUnlink g true; OTblGone g] | None => [] end) (g0 :: rest)
      ++ [OCompRename]
  | Some _ => [OCompDamage; OCompGone]
  end.
Definition rec_tabs_prog (d : disk) : list fsop :=
  flat_map (fun t => if is_complete t then [] else [OTblUnlink (t_gen t) true; OTblGone (t_gen t)]) (k_tabs d).
Definition rec_wal_prog (d : disk) : list fsop :=
  match wal_records d with
  | [] => []
  | recs => let g := max_gen (filter is_complete (k_tabs d)) + 1 in [OTblMkdir g; OTblComplete g (store_of recs)]
  end
  ++ map (fun w => OWalRemove (fst w)) (k_wals d) ++ [OWalClear].

(* the three stages look at the disk their predecessors left *)
Definition rec_prog (d : disk) : option (list fsop) :=
  let p1 := rec_comp_prog d in
  match fs_run d p1 with
  | None => None
  | Some d1 =>
      if existsb is_half (k_tabs d1) then None else
      let p2 := rec_tabs_prog d1 in
      match fs_run d1 p2 with
      | None => None
      | Some d2 => Some (p1 ++ p2 ++ rec_wal_prog d2)
      end
  end.

(* the disk after the first n effects of a recovery *)
Definition rec_cut (d : disk) (n : nat) : option disk :=
  match rec_prog d with Some p => fs_run d (firstn n p) | None => None end.

(* any number of interrupted recoveries *)
Inductive rec_reach : disk -> disk -> Prop :=
| RRrefl d : rec_reach d d
| RRstep d n d' d'' : rec_cut d n = Some d' -> rec_reach d' d'' -> rec_reach d d''.

(* ---- a session: client thread, flusher and compactor against one directory *)
Inductive cphase :=
| CIdle
| CStarted (inputs : list N) (merged : ltable)      (* compaction directory made *)
| CWritten (inputs : list N) (merged : ltable)
| CFlagBad (inputs : list N) (merged : ltable)
| CFlagged (inputs : list N) (todo : list fsop).    (* success flag written; remaining effects of reflect *)

Inductive client :=
| ClIdle
| ClBegun (m : mutation)        (* the call has started *)
| ClLogged (m : mutation)       (* handed to the WAL (sync: on disk; async: in the buffer) *)
| ClApplied (m : mutation).     (* in the memstore, the call has not returned yet *)

Record sess := mkS {
  s_disk : disk;
  s_async : bool;
  s_tables : list N;                      (* generations installed in the table manager, oldest first *)
  s_wr : list mutation;                   (* what the write memstore holds = what went to the current WAL file *)
  s_cur : N;                              (* number of the current WAL file *)
  s_gen : N;                              (* currentGeneration *)
  s_flush : option (N * list mutation * N * N);   (* WAL file, its mutations, phase 0..3, generation *)
  s_comp : cphase;
  s_buf : list mutation;                  (* async: appended, still in the process' write buffer *)
  s_client : client;
  (* ghost *)
  s_acked : list mutation;                (* calls that have returned, in order *)
  s_mark : nat                            (* how many operations had been applied at the last rotation *)
}.

(* a session starts on a recovered directory (Open has created WAL file 0, still without records) *)
Definition sess_init (async : bool) (d : disk) : sess :=
  mkS (mkDisk (k_tabs d) [] None) async (map t_gen (k_tabs d)) [] 0 (max_gen (k_tabs d)) None CIdle [] ClIdle [] 0.

Inductive saction :=
| SBegin (m : mutation)
| SLog                          (* AppendSync: write + fsync; async Append: into the buffer *)
| SApply
| SReturn
| SBufFlush (n : nat)           (* async: the buffered writer hands its first n complete records to the kernel *)
| SRotate                       (* inside Put/Delete after the memstore update, or forced *)
| SFlush                        (* the flusher's next effect *)
| SCompStart (skip len : nat)   (* the compactor selects the run of len tables after the first skip *)
| SComp.                        (* the compactor's next effect *)

Definition set_disk (s : sess) (d : disk) : sess :=
  mkS d (s_async s) (s_tables s) (s_wr s) (s_cur s) (s_gen s) (s_flush s) (s_comp s) (s_buf s) (s_client s) (s_acked s) (s_mark s).
Definition set_client (s : sess) (c : client) : sess :=
  mkS (s_disk s) (s_async s) (s_tables s) (s_wr s) (s_cur s) (s_gen s) (s_flush s) (s_comp s) (s_buf s) c (s_acked s) (s_mark s).
Definition set_comp (s : sess) (d : disk) (c : cphase) : sess :=
  mkS d (s_async s) (s_tables s) (s_wr s) (s_cur s) (s_gen s) (s_flush s) c (s_buf s) (s_client s) (s_acked s) (s_mark s).

Fixpoint append_all (d : disk) (n : N) (ms : list mutation) : option disk :=
  match ms with
  | [] => Some d
  | m :: r => match fs_apply d (OWalAppend n m) with Some d' => append_all d' n r | None => None end
  end.

Definition data_of (d : disk) (g : N) : ltable :=
  match find_tab g (k_tabs d) with Some t => t_data t | None => [] end.

Definition sstep (s : sess) (a : saction) : option sess :=
  match a with
  | SBegin m =>
      match s_client s with
      | ClIdle => if mut_ok m then Some (set_client s (ClBegun m)) else None
      | _ => None
      end
  | SLog =>
      match s_client s with
      | ClBegun m =>
          if s_async s
          then Some (mkS (s_disk s) true (s_tables s) (s_wr s) (s_cur s) (s_gen s) (s_flush s) (s_comp s) (s_buf s ++ [m]) (ClLogged m) (s_acked s) (s_mark s))
          else match fs_apply (s_disk s) (OWalAppend (s_cur s) m) with
               | Some d => Some (set_client (set_disk s d) (ClLogged m))
               | None => None
               end
      | _ => None
      end
  | SApply =>
      match s_client s with
      | ClLogged m =>
          Some (mkS (s_disk s) (s_async s) (s_tables s) (s_wr s ++ [m]) (s_cur s) (s_gen s) (s_flush s) (s_comp s) (s_buf s) (ClApplied m) (s_acked s) (s_mark s))
      | _ => None
      end
  | SReturn =>
      match s_client s with
      | ClApplied m =>
          Some (mkS (s_disk s) (s_async s) (s_tables s) (s_wr s) (s_cur s) (s_gen s) (s_flush s) (s_comp s) (s_buf s) ClIdle (s_acked s ++ [m]) (s_mark s))
      | _ => None
      end
  | SBufFlush n =>
      if s_async s then
        match append_all (s_disk s) (s_cur s) (firstn n (s_buf s)) with
        | Some d => Some (mkS d true (s_tables s) (s_wr s) (s_cur s) (s_gen s) (s_flush s) (s_comp s) (skipn n (s_buf s)) (s_client s) (s_acked s) (s_mark s))
        | None => None
        end
      else None
  | SRotate =>
      (* not between the WAL append and the memstore update of a call; the flusher must be idle *)
      match s_client s, s_flush s with
      | ClLogged _, _ => None
      | ClBegun _, _ => None
      | _, Some _ => None
      | cl, None =>
          (* Rotate closes the current file (the buffer is written out) and creates the next *)
          match append_all (s_disk s) (s_cur s) (s_buf s) with
          | None => None
          | Some d1 =>
              Some (mkS d1 (s_async s) (s_tables s) [] (s_cur s + 1) (s_gen s)
                        (Some (s_cur s, s_wr s, 0, 0)) (s_comp s) [] cl (s_acked s)
                        (length (s_acked s) + match cl with ClApplied _ => 1 | _ => 0 end)%nat)
          end
      end
  | SFlush =>
      match s_flush s with
      | None => None
      | Some (w, ms, ph, g) =>
          let upd d fl gen tabs := mkS d (s_async s) tabs (s_wr s) (s_cur s) gen fl (s_comp s) (s_buf s) (s_client s) (s_acked s) (s_mark s) in
          if ph =? 0 then
            match ms with
            | [] => Some (upd (s_disk s) None (s_gen s) (s_tables s))       (* empty store: nothing is written, the WAL file stays *)
            | _ => match fs_apply (s_disk s) (OTblMkdir (s_gen s + 1)) with
                   | Some d => Some (upd d (Some (w, ms, 1, s_gen s + 1)) (s_gen s + 1) (s_tables s))
                   | None => None
                   end
            end
          else if ph =? 1 then
            match fs_apply (s_disk s) (OTblComplete g (store_of ms)) with
            | Some d => Some (upd d (Some (w, ms, 2, g)) (s_gen s) (s_tables s))
            | None => None
            end
          else if ph =? 2 then
            match fs_apply (s_disk s) (OWalRemove w) with
            | Some d => Some (upd d (Some (w, ms, 3, g)) (s_gen s) (s_tables s))
            | None => None
            end
          else Some (upd (s_disk s) None (s_gen s) (s_tables s ++ [g]))
      end
  | SCompStart skip len =>
      match s_comp s with
      | CIdle =>
          let inputs := firstn len (skipn skip (s_tables s)) in
          match inputs with
          | [] => None
          | _ =>
              let u := lt_union (map (data_of (s_disk s)) inputs) in
              let merged := match skip with O => drop_tombstones u | _ => keep_tombstones u end in
              match fs_apply (s_disk s) OCompMkdir with
              | Some d => Some (set_comp s d (CStarted inputs merged))
              | None => None
              end
          end
      | _ => None
      end
  | SComp =>
      match s_comp s with
      | CIdle => None
      | CStarted inputs merged =>
          match fs_apply (s_disk s) (OCompWritten merged) with
          | Some d => Some (set_comp s d (CWritten inputs merged)) | None => None end
      | CWritten inputs merged =>
          match fs_apply (s_disk s) (OCompFlag FlagBad) with
          | Some d => Some (set_comp s d (CFlagBad inputs merged)) | None => None end
      | CFlagBad inputs merged =>
          match fs_apply (s_disk s) (OCompFlag (FlagGood inputs)) with
          | Some d => Some (set_comp s d (CFlagged inputs (flat_map (fun g => [OTblUnlink g false; OTblUnlink g true; OTblGone g]) inputs ++ [OCompRename])))
          | None => None end
      | CFlagged inputs (o :: todo) =>
          match fs_apply (s_disk s) o with
          | Some d => Some (set_comp s d (CFlagged inputs todo)) | None => None end
      | CFlagged inputs [] =>
          (* the manager swaps its readers: the replacement keeps the place of the first input *)
          match inputs with
          | g0 :: rest =>
              Some (mkS (s_disk s) (s_async s) (filter (fun g => negb (mem_gen g rest)) (s_tables s)) (s_wr s) (s_cur s) (s_gen s)
                        (s_flush s) CIdle (s_buf s) (s_client s) (s_acked s) (s_mark s))
          | [] => None
          end
      end
  end.

Fixpoint srun (s : sess) (acts : list saction) : option sess :=
  match acts with
  | [] => Some s
  | a :: r => match sstep s a with Some s' => srun s' r | None => None end
  end.

(* ---- the reference: a map and the mutations applied to it *)
Definition kvmap := bytes -> option bytes.
Definition kv_mut (m : kvmap) (x : mutation) : kvmap :=
  match x with
  | MPut k v => fun k' => if beqb k' k then reads_as (Some (Some v)) else m k'
  | MDel k => fun k' => if beqb k' k then None else m k'
  end.
Definition kv_after (m : kvmap) (xs : list mutation) : kvmap := fold_left kv_mut xs m.
Definition kv_eq (a b : kvmap) : Prop := forall k, a k = b k.

Definition inflight (s : sess) : list mutation :=
  match s_client s with ClIdle => [] | ClBegun m | ClLogged m | ClApplied m => [m] end.

(* the disks a process can leave behind: start from nothing; crash a session that was opened on a
   recovered directory; crash a recovery *)
Inductive Reach : disk -> Prop :=
| ReachEmpty : Reach disk_empty
| ReachSession d d1 async acts s :
    Reach d -> recover d = Some d1 -> srun (sess_init async d1) acts = Some s -> Reach (s_disk s)
| ReachRecovery d n d' :
    Reach d -> rec_cut d n = Some d' -> Reach d'.
