(* Helper lemmas for Fs/CrashFacts.v, part 4: recovery as a program of effects; every cut of it
   keeps the disk invariant and the view. *)
From Coq Require Import Lia Sorting.Sorted.
From GoSST Require Import Base.Bytes Base.Order Db.Logical Db.LogicalFacts Fs.Crash Fs.CrashKv Fs.CrashDisk Fs.CrashOps.
Local Open Scope N_scope.

(* ---- programs and their cuts *)
Lemma fs_run_app a : forall d b,
  fs_run d (a ++ b) = match fs_run d a with Some d1 => fs_run d1 b | None => None end.
Proof.
  induction a as [|o a IH]; intros d b; simpl; [reflexivity|].
  destruct (fs_apply d o); [apply IH|reflexivity].
Qed.

Definition all_cuts (Q : disk -> Prop) (d : disk) (p : list fsop) : Prop :=
  forall n, exists d', fs_run d (firstn n p) = Some d' /\ Q d'.

Definition stage (Q R : disk -> Prop) (d : disk) (p : list fsop) : Prop :=
  all_cuts Q d p /\ exists d1, fs_run d p = Some d1 /\ R d1.

Lemma stage_nil (Q R : disk -> Prop) d : Q d -> R d -> stage Q R d [].
Proof.
  intros HQ HR. split.
  - intros n. exists d. rewrite firstn_nil. auto.
  - exists d. auto.
Qed.

Lemma stage_cons (Q R : disk -> Prop) d o d1 p :
  Q d -> fs_apply d o = Some d1 -> stage Q R d1 p -> stage Q R d (o :: p).
Proof.
  intros HQ Hap [Hc (d2 & Hr & HR)]. split.
  - intros [|n]; simpl; [exists d; auto|]. rewrite Hap. apply Hc.
  - exists d2. simpl. rewrite Hap. auto.
Qed.

Lemma stage_app (Q R1 R2 : disk -> Prop) d p1 p2 :
  stage Q R1 d p1 -> (forall d1, R1 d1 -> stage Q R2 d1 p2) -> stage Q R2 d (p1 ++ p2).
Proof.
  intros [Hc (d1 & Hr & HR)] H2. destruct (H2 d1 HR) as [Hc2 (d2 & Hr2 & HR2)]. split.
  - intros n. rewrite firstn_app. destruct (Nat.le_gt_cases n (length p1)) as [Hle|Hgt].
    + replace (n - length p1)%nat with 0%nat by lia. rewrite firstn_O, app_nil_r. apply Hc.
    + rewrite firstn_all2 by lia. rewrite fs_run_app, Hr. apply Hc2.
  - exists d2. rewrite fs_run_app, Hr. auto.
Qed.

Lemma stage_weaken (Q R1 R2 : disk -> Prop) d p :
  stage Q R1 d p -> (forall d1, R1 d1 -> R2 d1) -> stage Q R2 d p.
Proof. intros [Hc (d1 & Hr & HR)] H. split; [exact Hc|]. exists d1. auto. Qed.

(* ---- what a cut has to keep *)
Definition Keeps (v : kvmap) (d : disk) : Prop := DInv d /\ kv_eq (dview d) v.

Lemma dview_cong d d' : ctabs d' = ctabs d -> wal_records d' = wal_records d -> dview d' = dview d.
Proof. intros H1 H2. unfold dview. rewrite H1, H2. reflexivity. Qed.

Lemma Keeps_same v d d' :
  Keeps v d -> DInv d' -> ctabs d' = ctabs d -> wal_records d' = wal_records d -> Keeps v d'.
Proof. intros [_ Hv] Hi H1 H2. split; [exact Hi|]. rewrite (dview_cong d d' H1 H2). exact Hv. Qed.

Definition KeepsT (T : list tdir) (W : list (N * list mutation)) (d : disk) : Prop :=
  DInv d /\ ctabs d = T /\ k_wals d = W.

Lemma KeepsT_same T W d d' :
  KeepsT T W d -> DInv d' -> ctabs d' = ctabs d -> k_wals d' = k_wals d -> KeepsT T W d'.
Proof. intros (_ & H1 & H2) Hi E1 E2. split; [exact Hi|]. split; congruence. Qed.

Lemma KeepsT_Keeps d0 d : KeepsT (ctabs d0) (k_wals d0) d -> Keeps (dview d0) d.
Proof.
  intros (Hi & H1 & H2). split; [exact Hi|]. unfold dview, wal_records. rewrite H1, H2. apply kv_eq_refl.
Qed.

(* ---- removing a table recovery does not look at *)
Lemma remove_after_unlink g b ts : remove_tab g (map (unlink_at g b) ts) = remove_tab g ts.
Proof.
  unfold remove_tab. induction ts as [|t ts IH]; simpl; [reflexivity|].
  unfold has_gen at 1. rewrite unlink_at_gen. fold (has_gen g t). rewrite IH.
  unfold has_gen. destruct (N.eqb_spec (t_gen t) g) as [E|E]; simpl; [reflexivity|].
  rewrite unlink_at_other by exact E. reflexivity.
Qed.

Lemma find_tab_map_gen f g ts : (forall t, t_gen (f t) = t_gen t) ->
  find_tab g (map f ts) = option_map f (find_tab g ts).
Proof.
  intros Hf. unfold find_tab. induction ts as [|t ts IH]; simpl; [reflexivity|].
  unfold has_gen at 1. rewrite Hf. fold (has_gen g t). destruct (has_gen g t); [reflexivity|exact IH].
Qed.

Lemma dead_unlink d g b : dead d g -> dead (mkDisk (map (unlink_at g b) (k_tabs d)) (k_wals d) (k_comp d)) g.
Proof.
  intros Hd t Ht E. cbn [k_tabs] in Ht. apply in_map_iff in Ht. destruct Ht as (y & <- & Hy).
  rewrite unlink_at_gen in E. change (liveb (mkDisk _ _ (k_comp d))) with (liveb d).
  unfold liveb, notin. rewrite unlink_at_gen.
  destruct (is_complete (unlink_at g b y)) eqn:Ec; [|apply andb_false_r].
  pose proof (unlink_at_complete _ _ _ Ec) as Eu. rewrite Eu in Ec.
  pose proof (Hd y Hy E) as Hq. unfold liveb, notin in Hq. rewrite Ec in Hq. exact Hq.
Qed.

Lemma unlink_step T W d g b t :
  KeepsT T W d -> dead d g -> find_tab g (k_tabs d) = Some t -> (b = false -> mem_gen g (inputs_of d) = true) ->
  let d' := mkDisk (map (unlink_at g b) (k_tabs d)) (k_wals d) (k_comp d) in
  fs_apply d (OTblUnlink g b) = Some d' /\ KeepsT T W d'.
Proof.
  intros Hk Hd Hf Hb d'. assert (fs_apply d (OTblUnlink g b) = Some d') as Hap.
  { unfold fs_apply. rewrite Hf. reflexivity. }
  split; [exact Hap|]. assert (DInv d') as Hi.
  { eapply DInv_apply; [apply Hk| |exact Hap]. destruct b; simpl; auto. }
  apply (KeepsT_same T W d d' Hk Hi); [|reflexivity].
  apply ctabs_of_live; [apply Hk|apply Hi|reflexivity|]. apply live_unlink. exact Hd.
Qed.

Lemma gone_step T W d g t :
  KeepsT T W d -> dead d g -> find_tab g (k_tabs d) = Some t ->
  let d' := mkDisk (remove_tab g (k_tabs d)) (k_wals d) (k_comp d) in
  fs_apply d (OTblGone g) = Some d' /\ KeepsT T W d'.
Proof.
  intros Hk Hd Hf d'. assert (fs_apply d (OTblGone g) = Some d') as Hap.
  { unfold fs_apply. rewrite Hf. reflexivity. }
  split; [exact Hap|]. assert (DInv d') as Hi.
  { eapply DInv_apply; [apply Hk| |exact Hap]. exact I. }
  apply (KeepsT_same T W d d' Hk Hi); [|reflexivity].
  apply ctabs_of_live; [apply Hk|apply Hi|reflexivity|]. apply live_gone. exact Hd.
Qed.

Definition removed (d : disk) (g : N) : disk := mkDisk (remove_tab g (k_tabs d)) (k_wals d) (k_comp d).

(* RemoveAll of a table directory: with or without the intermediate "half" state *)
Lemma kill_table T W d g t (half_first : bool) :
  KeepsT T W d -> dead d g -> find_tab g (k_tabs d) = Some t ->
  (half_first = true -> mem_gen g (inputs_of d) = true) ->
  stage (KeepsT T W) (fun d' => d' = removed d g /\ KeepsT T W d') d
        ((if half_first then [OTblUnlink g false] else []) ++ [OTblUnlink g true; OTblGone g]).
Proof.
  intros Hk Hd Hf Hh.
  assert (forall d0 t0, KeepsT T W d0 -> dead d0 g -> find_tab g (k_tabs d0) = Some t0 ->
          stage (KeepsT T W) (fun d' => d' = removed d0 g /\ KeepsT T W d') d0 [OTblUnlink g true; OTblGone g]) as H2.
  { intros d0 t0 Hk0 Hd0 Hf0.
    destruct (unlink_step T W d0 g true t0 Hk0 Hd0 Hf0) as [Ha1 Hk1]; [discriminate|].
    set (d1 := mkDisk (map (unlink_at g true) (k_tabs d0)) (k_wals d0) (k_comp d0)) in *.
    assert (find_tab g (k_tabs d1) = Some (unlink_at g true t0)) as Hf1.
    { cbn [d1 k_tabs]. rewrite find_tab_map_gen by apply unlink_at_gen. rewrite Hf0. reflexivity. }
    destruct (gone_step T W d1 g _ Hk1 (dead_unlink d0 g true Hd0) Hf1) as [Ha2 Hk2].
    eapply stage_cons; [exact Hk0|exact Ha1|]. eapply stage_cons; [exact Hk1|exact Ha2|].
    assert (mkDisk (remove_tab g (k_tabs d1)) (k_wals d1) (k_comp d1) = removed d0 g) as E.
    { unfold removed. cbn [d1 k_tabs k_wals k_comp]. rewrite remove_after_unlink. reflexivity. }
    rewrite E in *. apply stage_nil; [exact Hk2|]. split; [reflexivity|exact Hk2]. }
  destruct half_first; simpl app.
  - destruct (unlink_step T W d g false t Hk Hd Hf) as [Ha1 Hk1]; [intros _; apply Hh; reflexivity|].
    set (d1 := mkDisk (map (unlink_at g false) (k_tabs d)) (k_wals d) (k_comp d)) in *.
    assert (find_tab g (k_tabs d1) = Some (unlink_at g false t)) as Hf1.
    { cbn [d1 k_tabs]. rewrite find_tab_map_gen by apply unlink_at_gen. rewrite Hf. reflexivity. }
    eapply stage_cons; [exact Hk|exact Ha1|].
    eapply stage_weaken; [apply (H2 d1 _ Hk1 (dead_unlink d g false Hd) Hf1)|].
    intros d2 [-> Hk2]. split; [|exact Hk2].
    unfold removed. cbn [d1 k_tabs k_wals k_comp]. rewrite remove_after_unlink. reflexivity.
  - apply (H2 d t Hk Hd Hf).
Qed.

(* ---- stage 1: the compaction directory *)
Definition comp_kill (d : disk) (g : N) : list fsop :=
  match find_tab g (k_tabs d) with
  | Some _ => [OTblUnlink g false; OTblUnlink g true; OTblGone g]
  | None => []
  end.

Lemma flat_map_ext_in' {A B} (f g : A -> list B) l : (forall x, In x l -> f x = g x) -> flat_map f l = flat_map g l.
Proof.
  induction l as [|x l IH]; intros H; simpl; [reflexivity|].
  rewrite (H x (or_introl eq_refl)), IH; [reflexivity|]. intros y Hy. apply H. right. exact Hy.
Qed.

Lemma find_tab_remove_other g g' ts : g' <> g -> find_tab g' (remove_tab g ts) = find_tab g' ts.
Proof.
  intros Hne. unfold find_tab, remove_tab. induction ts as [|t ts IH]; simpl; [reflexivity|].
  destruct (has_gen g t) eqn:E1; destruct (has_gen g' t) eqn:E2; simpl; rewrite ?E2; auto.
  unfold has_gen in E1, E2. apply N.eqb_eq in E1, E2. congruence.
Qed.

Lemma find_tab_remove_same g ts : find_tab g (remove_tab g ts) = None.
Proof.
  apply find_tab_none. intros t Ht. unfold remove_tab in Ht. apply filter_In in Ht. destruct Ht as [_ Hn].
  unfold has_gen in Hn. destruct (N.eqb_spec (t_gen t) g); [discriminate|assumption].
Qed.

Lemma find_tab_remove_none g g' ts : find_tab g' ts = None -> find_tab g' (remove_tab g ts) = None.
Proof.
  rewrite !find_tab_none. intros H t Ht. apply H. unfold remove_tab in Ht. apply filter_In in Ht. apply Ht.
Qed.

Lemma stage1_inputs T W : forall l d,
  KeepsT T W d -> incl l (inputs_of d) -> NoDup l ->
  stage (KeepsT T W)
        (fun d' => KeepsT T W d' /\ k_comp d' = k_comp d
                   /\ (forall g, In g l -> find_tab g (k_tabs d') = None)
                   /\ (forall g, find_tab g (k_tabs d) = None -> find_tab g (k_tabs d') = None))
        d (flat_map (comp_kill d) l).
Proof.
  induction l as [|g l IH]; intros d Hk Hincl Hnd.
  - apply stage_nil; [exact Hk|]. split; [exact Hk|]. split; [reflexivity|]. split; [intros g []|auto].
  - inversion Hnd as [|? ? Hnotin Hnd']; subst.
    assert (incl l (inputs_of d)) as Hincl' by (intros x Hx; apply Hincl; right; exact Hx).
    simpl. unfold comp_kill at 1. destruct (find_tab g (k_tabs d)) as [t|] eqn:Hf.
    + assert (mem_gen g (inputs_of d) = true) as Hm by (apply mem_gen_In, Hincl; left; reflexivity).
      eapply stage_app.
      * apply (kill_table T W d g t true Hk (dead_input d g Hm) Hf). intros _. exact Hm.
      * intros d1 [-> Hk1].
        rewrite (flat_map_ext_in' (comp_kill d) (comp_kill (removed d g))).
        2:{ intros x Hx. unfold comp_kill, removed. cbn [k_tabs].
            rewrite find_tab_remove_other; [reflexivity|]. intros ->. contradiction. }
        eapply stage_weaken; [apply (IH (removed d g) Hk1 Hincl' Hnd')|].
        intros d2 (Hk2 & Hc & Hl & Hn). split; [exact Hk2|]. split; [exact Hc|]. split.
        -- intros x [<-|Hx]; [|apply Hl; exact Hx]. apply Hn. apply find_tab_remove_same.
        -- intros x Hx. apply Hn. apply find_tab_remove_none. exact Hx.
    + simpl. eapply stage_weaken; [apply (IH d Hk Hincl' Hnd')|].
      intros d2 (Hk2 & Hc & Hl & Hn). split; [exact Hk2|]. split; [exact Hc|]. split; [|exact Hn].
      intros x [<-|Hx]; [apply Hn; exact Hf|apply Hl; exact Hx].
Qed.

Lemma rename_step T W d g0 rest m c :
  KeepsT T W d -> k_comp d = Some (mkCd (FlagGood (g0 :: rest)) m c) ->
  (forall g, In g (g0 :: rest) -> find_tab g (k_tabs d) = None) ->
  let d' := mkDisk (insert_tab (mkT g0 (if c then TComplete else TPartial) m) (k_tabs d)) (k_wals d) None in
  fs_apply d OCompRename = Some d' /\ KeepsT T W d'.
Proof.
  intros Hk Hc Hgone d'. assert (fs_apply d OCompRename = Some d') as Hap.
  { unfold fs_apply. rewrite Hc. rewrite (Hgone g0 (or_introl eq_refl)). reflexivity. }
  split; [exact Hap|].
  assert (forall t, In t (k_tabs d) -> mem_gen (t_gen t) (inputs_of d) = false) as Hnot.
  { intros t Ht. apply mem_gen_false. intros Hin. unfold inputs_of in Hin. rewrite Hc in Hin.
    specialize (Hgone _ Hin). rewrite find_tab_none in Hgone. apply (Hgone t Ht). reflexivity. }
  assert (DInv d') as Hi.
  { eapply DInv_apply; [apply Hk| |exact Hap]. intros t Ht. destruct (is_half t) eqn:Eh; [|reflexivity].
    pose proof (Hnot t Ht) as Hn. rewrite (di_half d (proj1 Hk) t Ht Eh) in Hn. discriminate. }
  apply (KeepsT_same T W d d' Hk Hi); [|reflexivity].
  rewrite (ctabs_noflag d') by reflexivity. unfold ctabs. rewrite finish_comp_eq, Hc.
  rewrite (filter_true (notin d)); [reflexivity|]. intros t Ht. unfold notin. rewrite (Hnot t Ht). reflexivity.
Qed.

Lemma rec_comp_prog_eq d :
  rec_comp_prog d = match k_comp d with
                    | None => []
                    | Some (mkCd (FlagGood (g0 :: rest)) _ _) => flat_map (comp_kill d) (g0 :: rest) ++ [OCompRename]
                    | Some _ => [OCompDamage; OCompGone]
                    end.
Proof. reflexivity. Qed.

Lemma stage1 T W d :
  KeepsT T W d -> stage (KeepsT T W) (fun d1 => KeepsT T W d1 /\ k_comp d1 = None) d (rec_comp_prog d).
Proof.
  intros Hk. rewrite rec_comp_prog_eq. destruct (k_comp d) as [[fl m c]|] eqn:Ec.
  2:{ apply stage_nil; auto. }
  assert (forall fl', (forall l, fl' <> FlagGood l) -> k_comp d = Some (mkCd fl' m c) ->
          stage (KeepsT T W) (fun d1 => KeepsT T W d1 /\ k_comp d1 = None) d [OCompDamage; OCompGone]) as Hbad.
  { intros fl' Hfl Ec'.
    set (d1 := mkDisk (k_tabs d) (k_wals d) (Some (mkCd fl' [] false))).
    set (d2 := mkDisk (k_tabs d) (k_wals d) None).
    assert (inputs_of d = []) as Hi0 by (unfold inputs_of; rewrite Ec'; destruct fl'; try reflexivity; exfalso; eapply Hfl; reflexivity).
    assert (inputs_of d1 = []) as Hi1 by (unfold inputs_of; simpl; destruct fl'; try reflexivity; exfalso; eapply Hfl; reflexivity).
    assert (fs_apply d OCompDamage = Some d1) as Ha1.
    { unfold fs_apply. rewrite Ec'. destruct fl'; try reflexivity. exfalso; eapply Hfl; reflexivity. }
    assert (fs_apply d1 OCompGone = Some d2) as Ha2 by reflexivity.
    assert (DInv d1) as Hd1 by (eapply DInv_apply; [apply Hk| |exact Ha1]; exact I).
    assert (DInv d2) as Hd2 by (eapply DInv_apply; [apply Hd1| |exact Ha2]; exact Hi1).
    assert (KeepsT T W d1) as Hk1.
    { apply (KeepsT_same T W d d1 Hk Hd1); [|reflexivity]. rewrite !ctabs_noflag by assumption. reflexivity. }
    assert (KeepsT T W d2) as Hk2.
    { apply (KeepsT_same T W d d2 Hk Hd2); [|reflexivity]. rewrite !ctabs_noflag by (assumption || reflexivity). reflexivity. }
    eapply stage_cons; [exact Hk|exact Ha1|]. eapply stage_cons; [exact Hk1|exact Ha2|].
    apply stage_nil; [exact Hk2|]. split; [exact Hk2|reflexivity]. }
  destruct fl as [| |[|g0 rest]].
  - apply (Hbad FlagNone); [discriminate|exact Ec].
  - apply (Hbad FlagBad); [discriminate|exact Ec].
  - exfalso. destruct (di_flag d (proj1 Hk) _ _ _ Ec) as [Hne _]. apply Hne. reflexivity.
  - destruct (di_flag d (proj1 Hk) _ _ _ Ec) as [_ Hnd].
    assert (inputs_of d = g0 :: rest) as Hin by (unfold inputs_of; rewrite Ec; reflexivity).
    eapply stage_app.
    + apply (stage1_inputs T W (g0 :: rest) d Hk); [rewrite Hin; apply incl_refl|exact Hnd].
    + intros d1 (Hk1 & Hc1 & Hgone & _).
      destruct (rename_step T W d1 g0 rest m c Hk1) as [Hap Hk2]; [congruence|exact Hgone|].
      eapply stage_cons; [exact Hk1|exact Hap|]. apply stage_nil; [exact Hk2|]. split; [exact Hk2|reflexivity].
Qed.

(* ---- stage 2: incomplete table directories *)
Definition tab_kill (t : tdir) : list fsop :=
  if is_complete t then [] else [OTblUnlink (t_gen t) true; OTblGone (t_gen t)].

Lemma stage2_aux T W : forall l d,
  KeepsT T W d -> gsorted l -> incl l (k_tabs d) ->
  stage (KeepsT T W)
        (fun d' => KeepsT T W d' /\ k_comp d' = k_comp d
                   /\ forall t, In t (k_tabs d') -> In t (k_tabs d) /\ (In t l -> is_complete t = true))
        d (flat_map tab_kill l).
Proof.
  induction l as [|t0 l IH]; intros d Hk Hs Hincl.
  - apply stage_nil; [exact Hk|]. split; [exact Hk|]. split; [reflexivity|]. intros t Ht. split; [exact Ht|intros []].
  - apply gsorted_inv in Hs. destruct Hs as [Hs Hlt]. rewrite Forall_forall in Hlt. unfold glt in Hlt.
    assert (In t0 (k_tabs d)) as Ht0 by (apply Hincl; left; reflexivity).
    assert (incl l (k_tabs d)) as Hincl' by (intros x Hx; apply Hincl; right; exact Hx).
    simpl. unfold tab_kill at 1. destruct (is_complete t0) eqn:Ec.
    + simpl. eapply stage_weaken; [apply (IH d Hk Hs Hincl')|].
      intros d' (Hk' & Hc' & Hall). split; [exact Hk'|]. split; [exact Hc'|].
      intros t Ht. destruct (Hall t Ht) as [H1 H2]. split; [exact H1|]. intros [<-|Hin]; auto.
    + assert (find_tab (t_gen t0) (k_tabs d) = Some t0) as Hf.
      { apply find_tab_In; [apply Hk|exact Ht0|reflexivity]. }
      assert (dead d (t_gen t0)) as Hd.
      { apply dead_incomplete. intros t Ht E.
        rewrite (gsorted_unique (k_tabs d) t t0 (di_gs d (proj1 Hk)) Ht Ht0 E). exact Ec. }
      eapply stage_app.
      * apply (kill_table T W d (t_gen t0) t0 false Hk Hd Hf). discriminate.
      * intros d1 [-> Hk1].
        assert (incl l (k_tabs (removed d (t_gen t0)))) as Hincl1.
        { intros x Hx. unfold removed, remove_tab. cbn [k_tabs]. apply filter_In. split; [apply Hincl'; exact Hx|].
          unfold has_gen. specialize (Hlt x Hx). destruct (N.eqb_spec (t_gen x) (t_gen t0)); [lia|reflexivity]. }
        eapply stage_weaken; [apply (IH _ Hk1 Hs Hincl1)|].
        intros d' (Hk' & Hc' & Hall). split; [exact Hk'|]. split; [exact Hc'|].
        intros t Ht. destruct (Hall t Ht) as [H1 H2]. unfold removed, remove_tab in H1. cbn [k_tabs] in H1.
        apply filter_In in H1. destruct H1 as [H1 Hg]. split; [exact H1|].
        intros [<-|Hin]; [|auto]. unfold has_gen in Hg. rewrite N.eqb_refl in Hg. discriminate.
Qed.

Lemma stage2 T W d :
  KeepsT T W d -> k_comp d = None ->
  stage (KeepsT T W)
        (fun d' => KeepsT T W d' /\ k_comp d' = None /\ forall t, In t (k_tabs d') -> is_complete t = true)
        d (rec_tabs_prog d).
Proof.
  intros Hk Hc. change (rec_tabs_prog d) with (flat_map tab_kill (k_tabs d)).
  eapply stage_weaken; [apply (stage2_aux T W (k_tabs d) d Hk); [apply Hk|apply incl_refl]|].
  intros d' (Hk' & Hc' & Hall). split; [exact Hk'|]. split; [congruence|].
  intros t Ht. destruct (Hall t Ht) as [H1 H2]. auto.
Qed.

Lemma allcomplete_ctabs d :
  k_comp d = None -> (forall t, In t (k_tabs d) -> is_complete t = true) -> ctabs d = k_tabs d.
Proof.
  intros Hc Hall. rewrite ctabs_noflag by (unfold inputs_of; rewrite Hc; reflexivity).
  apply filter_true. exact Hall.
Qed.

(* ---- stage 3: the WAL *)
Lemma KeepsW v d :
  DInv d -> k_comp d = None -> (forall t, In t (k_tabs d) -> is_complete t = true) ->
  kv_eq (kv_after (tabs_get (k_tabs d)) (wal_records d)) v -> Keeps v d.
Proof.
  intros Hi Hc Hall Hv. split; [exact Hi|]. unfold dview. rewrite (allcomplete_ctabs d Hc Hall). exact Hv.
Qed.

Lemma stage3_wals v T : forall W d,
  DInv d -> k_tabs d = T -> k_comp d = None -> k_wals d = W -> (forall t, In t T -> is_complete t = true) ->
  (forall a S, flat_map snd W = a ++ S -> kv_eq (kv_after (tabs_get T) S) v) ->
  stage (Keeps v) (fun d' => d' = mkDisk T [] None) d (map (fun w => OWalRemove (fst w)) W ++ [OWalClear]).
Proof.
  induction W as [|w W IH]; intros d Hi Ht Hc Hw Hall Hsuf.
  - simpl.
    assert (Keeps v d) as Hk.
    { apply KeepsW; auto; rewrite Ht; [exact Hall|]. unfold wal_records. rewrite Hw. apply (Hsuf [] []). reflexivity. }
    assert (fs_apply d OWalClear = Some (mkDisk T [] None)) as Hap.
    { unfold fs_apply. rewrite Ht, Hc. reflexivity. }
    eapply stage_cons; [exact Hk|exact Hap|]. apply stage_nil; [|reflexivity].
    apply KeepsW; cbn [k_tabs k_comp]; auto.
    + eapply DInv_apply; [exact Hi| |exact Hap]. exact I.
    + apply (Hsuf [] []). reflexivity.
  - simpl.
    assert (Keeps v d) as Hk.
    { apply KeepsW; auto; rewrite Ht; [exact Hall|]. unfold wal_records. rewrite Hw. apply (Hsuf []). reflexivity. }
    assert (filter (fun x => negb (fst x =? fst w)) W = W) as Hfil.
    { apply filter_true. intros x Hx. pose proof (di_ws d Hi) as Hs. unfold wsorted in Hs. rewrite Hw in Hs.
      simpl in Hs. inversion Hs as [|? ? _ Hlt]; subst. rewrite Forall_forall in Hlt.
      assert (fst w < fst x) by (apply Hlt; apply in_map; exact Hx).
      destruct (N.eqb_spec (fst x) (fst w)); [lia|reflexivity]. }
    assert (fs_apply d (OWalRemove (fst w)) = Some (mkDisk T W None)) as Hap.
    { unfold fs_apply. rewrite Hw. simpl. rewrite N.eqb_refl. simpl. rewrite Hfil, Ht, Hc. reflexivity. }
    eapply stage_cons; [exact Hk|exact Hap|]. apply IH; auto.
    + eapply DInv_apply; [exact Hi| |exact Hap]. exact I.
    + intros a S E. apply (Hsuf (snd w ++ a)). simpl. rewrite E, app_assoc. reflexivity.
Qed.

Lemma find_tab_above g ts : (forall t, In t ts -> t_gen t < g) -> find_tab g ts = None.
Proof. intros H. apply find_tab_none. intros t Ht. specialize (H t Ht). lia. Qed.

Lemma stage3 d :
  DInv d -> k_comp d = None -> (forall t, In t (k_tabs d) -> is_complete t = true) ->
  stage (Keeps (dview d)) (fun d' => d' = mkDisk (ctabs d ++ newtab d) [] None) d (rec_wal_prog d).
Proof.
  intros Hi Hc Hall. pose proof (allcomplete_ctabs d Hc Hall) as Ect.
  assert (kv_eq (dview d) (kv_after (tabs_get (k_tabs d)) (wal_records d))) as Hdv
    by (unfold dview; rewrite Ect; apply kv_eq_refl).
  unfold rec_wal_prog, newtab. rewrite Ect. destruct (wal_records d) as [|r0 recs] eqn:Er.
  - simpl app. rewrite app_nil_r. apply stage3_wals; auto.
    intros a S E. unfold wal_records in Er. rewrite Er in E. symmetry in E. apply app_eq_nil in E.
    destruct E as [_ ->]. apply kv_eq_sym. exact Hdv.
  - set (rs := r0 :: recs) in *. rewrite (filter_true is_complete (k_tabs d) Hall).
    set (T := k_tabs d) in *. set (g := max_gen T + 1).
    assert (forall t, In t T -> t_gen t < g) as Hlt by (intros t Ht; pose proof (max_gen_ge T t Ht); unfold g; lia).
    set (P := mkT g TPartial []). set (C := mkT g TComplete (store_of rs)).
    set (d3 := mkDisk (T ++ [P]) (k_wals d) None).
    set (d4 := mkDisk (T ++ [C]) (k_wals d) None).
    assert (insert_tab P T = T ++ [P]) as Eins.
    { apply insert_tab_last. apply Forall_forall. intros t Ht. specialize (Hlt t Ht). simpl. lia. }
    assert (fs_apply d (OTblMkdir g) = Some d3) as Ha3.
    { unfold fs_apply. fold T. rewrite (find_tab_above g T Hlt). fold P. rewrite Eins, Hc. reflexivity. }
    assert (DInv d3) as Hi3 by (eapply DInv_apply; [exact Hi| |exact Ha3]; exact I).
    assert (find_tab g (T ++ [P]) = Some P) as Hf3.
    { apply find_tab_In; [apply Hi3|apply in_or_app; right; left; reflexivity|reflexivity]. }
    assert (map (complete_at g (store_of rs)) (T ++ [P]) = T ++ [C]) as Emap.
    { rewrite map_app. simpl. rewrite complete_at_same by reflexivity. f_equal.
      rewrite <- (map_id T) at 2. apply map_ext_in. intros t Ht. apply complete_at_other.
      specialize (Hlt t Ht). lia. }
    assert (fs_apply d3 (OTblComplete g (store_of rs)) = Some d4) as Ha4.
    { unfold fs_apply. cbn [d3 k_tabs k_wals k_comp]. rewrite Hf3. unfold P at 1. cbv iota beta.
      change (map _ (T ++ [P])) with (map (complete_at g (store_of rs)) (T ++ [P])). rewrite Emap. reflexivity. }
    assert (DInv d4) as Hi4 by (eapply DInv_apply; [exact Hi3| |exact Ha4]; apply store_of_sorted).
    assert (Keeps (dview d) d) as Hk by (split; [exact Hi|apply kv_eq_refl]).
    assert (Keeps (dview d) d3) as Hk3.
    { split; [exact Hi3|]. rewrite (dview_cong d d3); [apply kv_eq_refl| |reflexivity].
      rewrite Ect. rewrite ctabs_noflag by reflexivity. cbn [d3 k_tabs]. rewrite filter_app. simpl.
      rewrite app_nil_r. apply filter_true. exact Hall. }
    simpl app. eapply stage_cons; [exact Hk|exact Ha3|]. eapply stage_cons; [exact Hk3|exact Ha4|].
    apply stage3_wals; auto.
    + intros t Ht. apply in_app_or in Ht. destruct Ht as [Ht|[<-|[]]]; [apply Hall; exact Ht|reflexivity].
    + intros a S E. fold (wal_records d) in E. rewrite Er in E.
      eapply kv_eq_trans; [|apply kv_eq_sym; exact Hdv].
      eapply kv_eq_trans; [apply kv_after_ext; intros k; apply tabs_get_store|].
      rewrite E. apply kv_after_suffix.
Qed.

(* ---- the whole recovery *)
Lemma stage_pin (Q R : disk -> Prop) d p :
  stage Q R d p -> exists d1, fs_run d p = Some d1 /\ R d1 /\ stage Q (eq d1) d p.
Proof. intros [Hc (d1 & Hr & HR)]. exists d1. split; [exact Hr|]. split; [exact HR|]. split; [exact Hc|]. exists d1. auto. Qed.

Lemma stage_weakenQ (Q Q' R : disk -> Prop) d p :
  (forall x, Q x -> Q' x) -> stage Q R d p -> stage Q' R d p.
Proof.
  intros H [Hc Hr]. split; [|exact Hr]. intros n. destruct (Hc n) as (d' & H1 & H2). exists d'. auto.
Qed.

Lemma rec_main d :
  DInv d -> exists p, rec_prog d = Some p /\ stage (Keeps (dview d)) (fun d' => recover d = Some d') d p.
Proof.
  intros Hi. set (T := ctabs d). set (W := k_wals d).
  assert (KeepsT T W d) as Hk by (split; [exact Hi|split; reflexivity]).
  destruct (stage_pin _ _ _ _ (stage1 T W d Hk)) as (d1 & Hr1 & [Hk1 Hc1] & Hs1).
  assert (existsb is_half (k_tabs d1) = false) as Hnh.
  { apply existsb_false_iff. intros t Ht. destruct (is_half t) eqn:Eh; [|reflexivity].
    pose proof (di_half d1 (proj1 Hk1) t Ht Eh) as Hm. unfold inputs_of in Hm. rewrite Hc1 in Hm. discriminate. }
  destruct (stage_pin _ _ _ _ (stage2 T W d1 Hk1 Hc1)) as (d2 & Hr2 & (Hk2 & Hc2 & Hall2) & Hs2).
  unfold rec_prog. rewrite Hr1, Hnh, Hr2. eexists. split; [reflexivity|].
  assert (forall x, KeepsT T W x -> Keeps (dview d) x) as HQ by (intros x Hx; apply KeepsT_Keeps; exact Hx).
  destruct Hk2 as (Hi2 & Ht2 & Hw2).
  assert (dview d2 = dview d) as Edv by (unfold dview, wal_records; rewrite Ht2, Hw2; reflexivity).
  eapply stage_app; [apply (stage_weakenQ _ _ _ _ _ HQ Hs1)|]. intros ? <-.
  eapply stage_app; [apply (stage_weakenQ _ _ _ _ _ HQ Hs2)|]. intros ? <-.
  rewrite <- Edv. eapply stage_weaken; [apply (stage3 d2 Hi2 Hc2 Hall2)|].
  intros d' ->. rewrite (DInv_recover d Hi). unfold newtab, wal_records. rewrite Ht2, Hw2. reflexivity.
Qed.

Lemma rec_prog_ok d :
  DInv d -> exists p d', rec_prog d = Some p /\ fs_run d p = Some d' /\ recover d = Some d'.
Proof.
  intros Hi. destruct (rec_main d Hi) as (p & Hp & _ & (d' & Hr & Hrec)). exists p, d'. auto.
Qed.

Lemma rec_cut_keeps d n d' : DInv d -> rec_cut d n = Some d' -> Keeps (dview d) d'.
Proof.
  intros Hi Hcut. destruct (rec_main d Hi) as (p & Hp & Hc & _).
  unfold rec_cut in Hcut. rewrite Hp in Hcut. destruct (Hc n) as (d'' & Hr & Hk). congruence.
Qed.

Lemma rec_reach_keeps d d' : rec_reach d d' -> DInv d -> Keeps (dview d) d'.
Proof.
  induction 1 as [d|d n d1 d2 Hcut _ IH]; intros Hi.
  - split; [exact Hi|apply kv_eq_refl].
  - destruct (rec_cut_keeps d n d1 Hi Hcut) as [Hi1 Hv1]. destruct (IH Hi1) as [Hi2 Hv2].
    split; [exact Hi2|]. eapply kv_eq_trans; eassumption.
Qed.
