(* Helper lemmas for Fs/CrashFacts.v, part 6: the session invariant. *)
From Coq Require Import Lia Sorting.Sorted.
From GoSST Require Import Base.Bytes Base.Order Db.Logical Db.LogicalFacts Fs.Crash Fs.CrashKv Fs.CrashDisk Fs.CrashOps Fs.CrashSteps.
Local Open Scope N_scope.

Notation flush_t := (option (N * list mutation * N * N)) (only parsing).

Definition logged_of (cl : client) : list mutation :=
  match cl with ClLogged m | ClApplied m => [m] | _ => [] end.
Definition pending_of (cl : client) : list mutation :=
  match cl with ClLogged m => [m] | _ => [] end.

Definition fl_wals (fl : flush_t) : list (N * list mutation) :=
  match fl with Some (w, ms, ph, g) => if ph <? 3 then wfile w ms else [] | None => [] end.
Definition fl_tab (fl : flush_t) : list N :=
  match fl with Some (w, ms, ph, g) => if ph <? 2 then [] else [g] | None => [] end.
Definition eff_tables (comp : cphase) (tables : list N) : list N :=
  match comp with
  | CFlagged (g0 :: rest) _ => filter (fun g => negb (mem_gen g rest)) tables
  | _ => tables
  end.

(* the view: what is on disk is the state after a prefix [p] of the operations; the rest is in the buffer *)
Definition IV (base : kvmap) (ct : list tdir) (recs buf acked : list mutation) (cl : client) (mark : nat) : Prop :=
  exists p, p ++ buf = acked ++ logged_of cl
            /\ kv_eq (kv_after (tabs_get ct) recs) (kv_after base p) /\ (mark <= length p)%nat.

Definition IW (wals : list (N * list mutation)) (fl : flush_t) (cur : N) (buf wr : list mutation) (cl : client) : Prop :=
  exists cf, wals = fl_wals fl ++ wfile cur cf /\ cf ++ buf = wr ++ pending_of cl.

Definition IF (ct : list tdir) (fl : flush_t) (cur gen : N) (tables : list N) : Prop :=
  match fl with
  | None => True
  | Some (w, ms, ph, g) =>
      w < cur /\ ph <= 3 /\ (ph = 0 \/ ms <> [])
      /\ (1 <= ph -> g = gen /\ forall x, In x tables -> x < g)
      /\ (ph = 2 -> kv_eq (kv_after (tabs_get ct) ms) (tabs_get ct))
  end.

Definition IT (ct : list tdir) (comp : cphase) (tables : list N) (fl : flush_t) : Prop :=
  map t_gen ct = eff_tables comp tables ++ fl_tab fl.

Definition IG (tabs : list tdir) (gen : N) (tables : list N) : Prop :=
  (forall t, In t tabs -> t_gen t <= gen) /\ (forall x, In x tables -> x <= gen) /\ nsorted tables.

Definition CompSel (ct : list tdir) (tables inputs : list N) (merged : ltable) : Prop :=
  exists P I X, ct = P ++ I ++ X /\ map t_gen I = inputs /\ inputs <> []
                /\ merged = mk_merged P (lt_union (map t_data I)) /\ incl inputs tables.

Fixpoint todo_ok (inputs : list N) (l : list fsop) : Prop :=
  match l with
  | [] => True
  | OTblUnlink g false :: r => In g inputs /\ (exists r', r = OTblUnlink g true :: r') /\ todo_ok inputs r
  | OTblUnlink g true :: r => In g inputs /\ todo_ok inputs r
  | OTblGone g :: r => In g inputs /\ todo_ok inputs r
  | OCompRename :: r => r = []
  | _ => False
  end.

Definition IC (kc : option cdir) (tabs ct : list tdir) (comp : cphase) (tables : list N) : Prop :=
  match comp with
  | CIdle => kc = None
  | CStarted inputs merged => kc = Some (mkCd FlagNone [] false) /\ CompSel ct tables inputs merged
  | CWritten inputs merged => kc = Some (mkCd FlagNone merged true) /\ CompSel ct tables inputs merged
  | CFlagBad inputs merged => kc = Some (mkCd FlagBad merged true) /\ CompSel ct tables inputs merged
  | CFlagged inputs todo =>
      inputs <> [] /\ incl inputs tables /\ todo_ok inputs todo
      /\ (todo = [] -> kc = None)
      /\ (todo <> [] -> In OCompRename todo /\ exists merged, kc = Some (mkCd (FlagGood inputs) merged true))
      /\ (forall t, In t tabs -> In (t_gen t) inputs -> todo <> [] -> In (OTblGone (t_gen t)) todo)
      /\ (forall t, In t tabs -> is_half t = true -> In (OTblUnlink (t_gen t) true) todo)
  end.

Definition SI (base : kvmap) (d : disk) (async : bool) (tables : list N) (wr : list mutation) (cur gen : N)
    (fl : flush_t) (comp : cphase) (buf : list mutation) (cl : client) (acked : list mutation) (mark : nat) : Prop :=
  DInv d
  /\ IV base (ctabs d) (wal_records d) buf acked cl mark
  /\ (async = false -> buf = [])
  /\ IW (k_wals d) fl cur buf wr cl
  /\ IF (ctabs d) fl cur gen tables
  /\ IT (ctabs d) comp tables fl
  /\ IG (k_tabs d) gen tables
  /\ IC (k_comp d) (k_tabs d) (ctabs d) comp tables.

Definition SInv (base : kvmap) (s : sess) : Prop :=
  SI base (s_disk s) (s_async s) (s_tables s) (s_wr s) (s_cur s) (s_gen s) (s_flush s) (s_comp s)
     (s_buf s) (s_client s) (s_acked s) (s_mark s).

Ltac sproj := cbn [s_disk s_async s_tables s_wr s_cur s_gen s_flush s_comp s_buf s_client s_acked s_mark
                    k_tabs k_wals k_comp].
Ltac sproj_in H := cbn [s_disk s_async s_tables s_wr s_cur s_gen s_flush s_comp s_buf s_client s_acked s_mark
                    k_tabs k_wals k_comp] in H.

(* ---- a session starts on a recovered directory *)
Lemma DInv_recovered d : DInv d -> DInv (mkDisk (ctabs d ++ newtab d) [] None).
Proof.
  intros Hi. pose proof (gsorted_ctabs d Hi) as Hgs. pose proof (ctabs_data_sorted d Hi) as Hds.
  constructor; cbn [k_tabs k_wals k_comp]; try discriminate.
  - unfold newtab. destruct (wal_records d); [rewrite app_nil_r; exact Hgs|].
    apply gsorted_app_last; [exact Hgs|]. apply Forall_forall. intros t Ht. simpl.
    pose proof (max_gen_ge _ _ Ht). lia.
  - constructor.
  - apply Forall_app. split; [exact Hds|]. unfold newtab. destruct (wal_records d); constructor; [|constructor].
    simpl. apply store_of_sorted.
  - intros t Ht Hh. exfalso. apply in_app_or in Ht. destruct Ht as [Ht|Ht].
    + apply ctabs_complete_all in Ht. unfold is_half, is_complete in *. destruct (t_state t); discriminate.
    + unfold newtab in Ht. destruct (wal_records d); [contradiction|]. destruct Ht as [<-|[]]. discriminate.
Qed.

Lemma recovered_complete d t : In t (ctabs d ++ newtab d) -> is_complete t = true.
Proof.
  intros Ht. apply in_app_or in Ht. destruct Ht as [Ht|Ht]; [apply (ctabs_complete_all d t Ht)|].
  unfold newtab in Ht. destruct (wal_records d); [contradiction|]. destruct Ht as [<-|[]]. reflexivity.
Qed.

Lemma allcomplete_ctabs' d :
  k_comp d = None -> (forall t, In t (k_tabs d) -> is_complete t = true) -> ctabs d = k_tabs d.
Proof.
  intros Hc Hall. rewrite ctabs_noflag by (unfold inputs_of; rewrite Hc; reflexivity).
  apply filter_true. exact Hall.
Qed.

Lemma SInv_init d d1 base async :
  DInv d -> recover d = Some d1 -> view d = Some base -> SInv base (sess_init async d1).
Proof.
  intros Hi Hrec Hview. rewrite (DInv_recover d Hi) in Hrec. inversion Hrec as [Ed1]. clear Hrec.
  unfold view in Hview. rewrite (DInv_recover d Hi) in Hview. inversion Hview as [Eb]. clear Hview.
  cbn [k_tabs] in Eb. set (T := ctabs d ++ newtab d) in *.
  unfold SInv, SI, sess_init. sproj.
  pose proof (DInv_recovered d Hi) as Hi1. fold T in Hi1.
  change (wal_records (mkDisk T [] None)) with (@nil mutation).
  assert (ctabs (mkDisk T [] None) = T) as Ect.
  { apply allcomplete_ctabs'; [reflexivity|]. intros t Ht. apply (recovered_complete d t Ht). }
  rewrite Ect. split; [exact Hi1|]. split; [|split; [reflexivity|split; [|split; [exact I|split; [|split; [|reflexivity]]]]]].
  - exists []. split; [reflexivity|]. split; [apply kv_eq_refl|]. simpl. lia.
  - exists []. split; reflexivity.
  - unfold IT. simpl. rewrite app_nil_r. reflexivity.
  - split; [intros t Ht; apply max_gen_ge; exact Ht|]. split.
    + intros x Hx. apply in_map_iff in Hx. destruct Hx as (t & <- & Ht). apply max_gen_ge. exact Ht.
    + apply gsorted_nsorted. apply Hi1.
Qed.

Ltac si_destruct H := destruct H as (HD & HV & HB & HW & HF & HT & HG & HC).
Ltac si_split := refine (conj _ (conj _ (conj _ (conj _ (conj _ (conj _ (conj _ _))))))).

(* ---- the client thread, in memory *)
Lemma SI_begin base d async tables wr cur gen fl comp buf acked mark m :
  SI base d async tables wr cur gen fl comp buf ClIdle acked mark ->
  SI base d async tables wr cur gen fl comp buf (ClBegun m) acked mark.
Proof. intros H. si_destruct H. si_split; assumption. Qed.

Lemma SI_log_async base d tables wr cur gen fl comp buf acked mark m :
  SI base d true tables wr cur gen fl comp buf (ClBegun m) acked mark ->
  SI base d true tables wr cur gen fl comp (buf ++ [m]) (ClLogged m) acked mark.
Proof.
  intros H. si_destruct H. si_split; try assumption.
  - destruct HV as (p & Hp & Hv & Hm). exists p. split; [|auto]. simpl in *. rewrite app_assoc, Hp, app_nil_r. reflexivity.
  - discriminate.
  - destruct HW as (cf & Hw & Hcf). exists cf. split; [exact Hw|]. simpl in *. rewrite app_assoc, Hcf, app_nil_r. reflexivity.
Qed.

Lemma SI_apply base d async tables wr cur gen fl comp buf acked mark m :
  SI base d async tables wr cur gen fl comp buf (ClLogged m) acked mark ->
  SI base d async tables (wr ++ [m]) cur gen fl comp buf (ClApplied m) acked mark.
Proof.
  intros H. si_destruct H. si_split; try assumption.
  destruct HW as (cf & Hw & Hcf). exists cf. split; [exact Hw|]. simpl in *. rewrite app_nil_r. exact Hcf.
Qed.

Lemma SI_return base d async tables wr cur gen fl comp buf acked mark m :
  SI base d async tables wr cur gen fl comp buf (ClApplied m) acked mark ->
  SI base d async tables wr cur gen fl comp buf ClIdle (acked ++ [m]) mark.
Proof.
  intros H. si_destruct H. si_split; try assumption.
  destruct HV as (p & Hp & Hv & Hm). exists p. split; [|auto]. simpl in *. rewrite app_nil_r. exact Hp.
Qed.

(* ---- records reach the current WAL file *)
Lemma fl_wals_lt ct fl cur gen tables w : IF ct fl cur gen tables -> In w (fl_wals fl) -> fst w < cur.
Proof.
  unfold IF, fl_wals. destruct fl as [[[[w0 ms] ph] g]|]; [|intros _ []].
  intros (Hw & _) Hin. destruct (ph <? 3); [|contradiction]. destruct ms; [contradiction|].
  destruct Hin as [<-|[]]. exact Hw.
Qed.

Lemma wsorted_fl_wals fl : wsorted (fl_wals fl).
Proof.
  unfold fl_wals. destruct fl as [[[[w0 ms] ph] g]|]; [|constructor].
  destruct (ph <? 3); [apply wsorted_wfile|constructor].
Qed.

Lemma wal_records_shape d F n cf : k_wals d = F ++ wfile n cf -> wal_records d = flat_map snd F ++ cf.
Proof. intros H. unfold wal_records. rewrite H, flat_map_app, wfile_records. reflexivity. Qed.

(* appending [ms] to the current file: everything but the WAL stays *)
Lemma SI_append base d async tables wr cur gen fl comp buf cl acked mark ms d' buf' cl' acked' mark' wr' :
  SI base d async tables wr cur gen fl comp buf cl acked mark ->
  append_all d cur ms = Some d' ->
  (forall p cf, p ++ buf = acked ++ logged_of cl -> cf ++ buf = wr ++ pending_of cl -> (mark <= length p)%nat ->
     (p ++ ms) ++ buf' = acked' ++ logged_of cl' /\ (cf ++ ms) ++ buf' = wr' ++ pending_of cl'
     /\ (mark' <= length (p ++ ms))%nat) ->
  (async = false -> buf' = []) ->
  SI base d' async tables wr' cur gen fl comp buf' cl' acked' mark'.
Proof.
  intros H Hap Hlists HB'. si_destruct H. destruct HW as (cf & Hw & Hcf).
  rewrite (append_all_shape ms d (fl_wals fl) cur cf Hw) in Hap by (intros w Hin; eapply fl_wals_lt; eassumption).
  inversion Hap as [Ed]. clear Hap.
  set (d1 := mkDisk (k_tabs d) (fl_wals fl ++ wfile cur (cf ++ ms)) (k_comp d)).
  assert (ctabs d1 = ctabs d) as Ect by (apply ctabs_cong; reflexivity).
  destruct HV as (p & Hp & Hv & Hm). destruct (Hlists p cf Hp Hcf Hm) as (L1 & L2 & L3).
  unfold SI. rewrite Ect. cbn [d1 k_tabs k_wals k_comp]. si_split; try assumption.
  - apply (DInv_cong_wals d); [reflexivity|reflexivity| |exact HD]. cbn [k_wals].
    apply wsorted_shape; [apply wsorted_fl_wals|]. intros w Hin. eapply fl_wals_lt; eassumption.
  - exists (p ++ ms). split; [exact L1|]. split; [|exact L3].
    rewrite (wal_records_shape d1 (fl_wals fl) cur (cf ++ ms) eq_refl).
    rewrite (wal_records_shape d (fl_wals fl) cur cf Hw) in Hv.
    rewrite app_assoc, !(kv_after_app _ _ ms). apply kv_after_ext. exact Hv.
  - exists (cf ++ ms). split; [reflexivity|exact L2].
Qed.

Lemma SI_rotate_mem base d async tables wr cur gen comp cl acked mark :
  SI base d async tables wr cur gen None comp [] cl acked mark ->
  pending_of cl = [] ->
  SI base d async tables [] (cur + 1) gen (Some (cur, wr, 0, 0)) comp [] cl acked (length (acked ++ logged_of cl)).
Proof.
  intros H Hcl. si_destruct H. si_split; try assumption.
  - destruct HV as (p & Hp & Hv & Hm). exists p. split; [exact Hp|]. split; [exact Hv|].
    rewrite app_nil_r in Hp. rewrite Hp. lia.
  - destruct HW as (cf & Hw & Hcf). exists []. rewrite Hcl, !app_nil_r in Hcf. subst cf.
    split; [|rewrite Hcl; reflexivity]. simpl in *. rewrite app_nil_r. exact Hw.
  - unfold IF. split; [lia|]. split; [lia|]. split; [left; reflexivity|]. split; intros; lia.
Qed.

(* ---- the flusher *)
Lemma SI_flush_empty base d async tables wr cur gen comp buf cl acked mark w g :
  SI base d async tables wr cur gen (Some (w, [], 0, g)) comp buf cl acked mark ->
  SI base d async tables wr cur gen None comp buf cl acked mark.
Proof. intros H. si_destruct H. si_split; try assumption. exact I. Qed.

Lemma IC_inputs_lt d comp tables g :
  IC (k_comp d) (k_tabs d) (ctabs d) comp tables -> (forall x, In x tables -> x < g) ->
  forall x, In x (inputs_of d) -> x < g.
Proof.
  unfold IC, inputs_of. intros HC Hlt x Hx.
  destruct comp as [|i m|i m|i m|i todo].
  - rewrite HC in Hx. contradiction.
  - destruct HC as [E _]. rewrite E in Hx. contradiction.
  - destruct HC as [E _]. rewrite E in Hx. contradiction.
  - destruct HC as [E _]. rewrite E in Hx. contradiction.
  - destruct HC as (_ & Hincl & _ & Hnil & Hcons & _). destruct todo as [|o todo].
    + rewrite (Hnil eq_refl) in Hx. contradiction.
    + destruct Hcons as [_ (mg & E)]; [discriminate|]. rewrite E in Hx. apply Hlt, Hincl, Hx.
Qed.

Lemma IC_mkdir kc tabs ct comp tables g :
  IC kc tabs ct comp tables -> (forall x, In x tables -> x < g) ->
  IC kc (insert_tab (mkT g TPartial []) tabs) ct comp tables.
Proof.
  intros HC Hlt. destruct comp as [|i m|i m|i m|i todo]; try exact HC.
  destruct HC as (H1 & H2 & H3 & H4 & H5 & H6 & H7).
  refine (conj H1 (conj H2 (conj H3 (conj H4 (conj H5 (conj _ _)))))).
  - intros t Ht Hin Hne. apply In_insert in Ht. destruct Ht as [->|Ht]; [|apply H6; assumption].
    simpl in Hin. specialize (Hlt g (H2 g Hin)). lia.
  - intros t Ht Hh. apply In_insert in Ht. destruct Ht as [->|Ht]; [discriminate|apply H7; assumption].
Qed.

Lemma SI_flush_mkdir base d async tables wr cur gen comp buf cl acked mark w ms g0 d' :
  SI base d async tables wr cur gen (Some (w, ms, 0, g0)) comp buf cl acked mark ->
  ms <> [] -> fs_apply d (OTblMkdir (gen + 1)) = Some d' ->
  SI base d' async tables wr cur (gen + 1) (Some (w, ms, 1, gen + 1)) comp buf cl acked mark.
Proof.
  intros H Hms Hap. si_destruct H.
  destruct (step_mkdir d (gen + 1) d' HD Hap) as (HD' & Ect & Ew & Ec & Et).
  destruct HG as (G1 & G2 & G3).
  assert (forall x, In x tables -> x < gen + 1) as Hlt by (intros x Hx; specialize (G2 x Hx); lia).
  unfold SI. unfold wal_records. rewrite Ect, Ew, Ec, Et. si_split; try assumption.
  - destruct HF as (F1 & _). split; [exact F1|]. split; [lia|]. split; [right; exact Hms|].
    split; [intros _; split; [reflexivity|exact Hlt]|intros; lia].
  - split; [|split; [|exact G3]].
    + intros t Ht. apply In_insert in Ht. destruct Ht as [->|Ht]; [simpl; lia|]. specialize (G1 t Ht). lia.
    + intros x Hx. specialize (G2 x Hx). lia.
  - apply IC_mkdir; assumption.
Qed.

Lemma CompSel_snoc ct tables inputs merged c :
  CompSel ct tables inputs merged -> CompSel (ct ++ [c]) tables inputs merged.
Proof.
  intros (P & I & X & -> & H1 & H2 & H3 & H4). exists P, I, (X ++ [c]).
  rewrite <- !app_assoc. auto.
Qed.

Lemma IC_complete kc tabs ct comp tables g data c :
  IC kc tabs ct comp tables -> IC kc (map (complete_at g data) tabs) (ct ++ [c]) comp tables.
Proof.
  intros HC. destruct comp as [|i m|i m|i m|i todo]; try exact HC;
    try (destruct HC as [H1 H2]; split; [exact H1|apply CompSel_snoc; exact H2]).
  destruct HC as (H1 & H2 & H3 & H4 & H5 & H6 & H7).
  refine (conj H1 (conj H2 (conj H3 (conj H4 (conj H5 (conj _ _)))))).
  - intros t Ht Hin Hne. apply in_map_iff in Ht. destruct Ht as (y & <- & Hy).
    rewrite complete_at_gen in *. apply H6; assumption.
  - intros t Ht Hh. apply in_map_iff in Ht. destruct Ht as (y & <- & Hy). rewrite complete_at_gen.
    apply H7; [exact Hy|]. unfold complete_at in Hh. destruct (has_gen g y); [discriminate|exact Hh].
Qed.

Lemma IW_records d fl cur buf wr cl :
  IW (k_wals d) fl cur buf wr cl -> exists cf, wal_records d = flat_map snd (fl_wals fl) ++ cf.
Proof. intros (cf & Hw & _). exists cf. apply (wal_records_shape d _ cur cf Hw). Qed.

Lemma SI_flush_complete base d async tables wr cur gen comp buf cl acked mark w ms g d' :
  SI base d async tables wr cur gen (Some (w, ms, 1, g)) comp buf cl acked mark ->
  fs_apply d (OTblComplete g (store_of ms)) = Some d' ->
  SI base d' async tables wr cur gen (Some (w, ms, 2, g)) comp buf cl acked mark.
Proof.
  intros H Hap. si_destruct H. destruct HF as (F1 & F2 & F3 & F4 & F5).
  destruct F4 as [-> Hlt]; [lia|]. destruct HG as (G1 & G2 & G3).
  destruct (step_complete d gen (store_of ms) d' HD G1 (IC_inputs_lt d comp tables gen HC Hlt)
              (store_of_sorted ms) Hap) as (HD' & Ect & Ew & Ec & Et).
  set (C := mkT gen TComplete (store_of ms)) in *.
  assert (kv_eq (tabs_get (ctabs d ++ [C])) (kv_after (tabs_get (ctabs d)) ms)) as Hsnoc
    by (intros k; apply tabs_get_store).
  destruct (IW_records d _ _ _ _ _ HW) as (cf & Hrec). simpl in Hrec. rewrite wfile_records in Hrec.
  unfold SI. unfold wal_records at 1. rewrite Ect, Ew, Ec, Et. fold (wal_records d). si_split; try assumption.
  - destruct HV as (p & Hp & Hv & Hm). exists p. split; [exact Hp|]. split; [|exact Hm].
    eapply kv_eq_trans; [|exact Hv]. rewrite Hrec, !kv_after_app.
    apply kv_after_ext. eapply kv_eq_trans; [apply kv_after_ext; exact Hsnoc|]. apply kv_after_twice.
  - split; [exact F1|]. split; [lia|]. split; [right; destruct F3 as [F3|F3]; [lia|exact F3]|].
    split; [intros _; split; [reflexivity|exact Hlt]|].
    intros _. eapply kv_eq_trans; [apply kv_after_ext; exact Hsnoc|].
    eapply kv_eq_trans; [apply kv_after_twice|]. apply kv_eq_sym. exact Hsnoc.
  - unfold IT in *. rewrite map_app, HT. simpl. rewrite app_nil_r. reflexivity.
  - split; [|split; assumption]. intros t Ht. apply in_map_iff in Ht. destruct Ht as (y & <- & Hy).
    rewrite complete_at_gen. apply G1. exact Hy.
  - apply IC_complete. exact HC.
Qed.

Lemma SI_flush_remove base d async tables wr cur gen comp buf cl acked mark w ms g d' :
  SI base d async tables wr cur gen (Some (w, ms, 2, g)) comp buf cl acked mark ->
  fs_apply d (OWalRemove w) = Some d' ->
  SI base d' async tables wr cur gen (Some (w, ms, 3, g)) comp buf cl acked mark.
Proof.
  intros H Hap. si_destruct H. destruct HF as (F1 & F2 & F3 & F4 & F5).
  destruct F3 as [F3|F3]; [lia|]. destruct HW as (cf & Hw & Hcf).
  destruct ms as [|m0 ms]; [contradiction|]. simpl in Hw.
  assert (d' = mkDisk (k_tabs d) (wfile cur cf) (k_comp d)) as ->.
  { unfold fs_apply in Hap. rewrite Hw in Hap. simpl in Hap. rewrite N.eqb_refl in Hap. simpl in Hap.
    inversion Hap. f_equal. apply filter_true. intros x Hx. destruct cf; [contradiction|].
    destruct Hx as [<-|[]]. simpl. destruct (N.eqb_spec cur w); [lia|reflexivity]. }
  set (d1 := mkDisk (k_tabs d) (wfile cur cf) (k_comp d)).
  assert (ctabs d1 = ctabs d) as Ect by (apply ctabs_cong; reflexivity).
  unfold SI. rewrite Ect. cbn [d1 k_tabs k_wals k_comp]. si_split; try assumption.
  - apply (DInv_cong_wals d); [reflexivity|reflexivity|apply wsorted_wfile|exact HD].
  - destruct HV as (p & Hp & Hv & Hm). exists p. split; [exact Hp|]. split; [|exact Hm].
    eapply kv_eq_trans; [|exact Hv].
    assert (wal_records d = (m0 :: ms) ++ cf) as ->
      by (unfold wal_records; rewrite Hw; simpl; rewrite wfile_records; reflexivity).
    assert (wal_records d1 = cf) as -> by (unfold wal_records; cbn [d1 k_wals]; apply wfile_records).
    rewrite kv_after_app. apply kv_after_ext. apply kv_eq_sym. apply F5. reflexivity.
  - exists cf. split; [reflexivity|exact Hcf].
  - split; [exact F1|]. split; [lia|]. split; [right; exact F3|]. split; [|intros; lia].
    intros _. apply F4. lia.
Qed.

Lemma eff_tables_snoc comp tables g :
  (forall i todo, comp = CFlagged i todo -> forall x, In x i -> x < g) ->
  eff_tables comp (tables ++ [g]) = eff_tables comp tables ++ [g].
Proof.
  intros H. destruct comp as [|i m|i m|i m|i todo]; try reflexivity.
  destruct i as [|g0 rest]; [reflexivity|]. simpl. rewrite filter_app. simpl.
  assert (mem_gen g rest = false) as ->; [|reflexivity].
  apply mem_gen_false. intros Hin. specialize (H _ _ eq_refl g (or_intror Hin)). lia.
Qed.

Lemma IC_tables_snoc kc tabs ct comp tables g :
  IC kc tabs ct comp tables -> IC kc tabs ct comp (tables ++ [g]).
Proof.
  intros HC.
  assert (forall i m, CompSel ct tables i m -> CompSel ct (tables ++ [g]) i m) as Hsel.
  { intros i m (P & I & X & H1 & H2 & H3 & H4 & H5). exists P, I, X. repeat split; auto.
    intros x Hx. apply in_or_app. left. apply H5. exact Hx. }
  destruct comp as [|i m|i m|i m|i todo]; try exact HC;
    try (destruct HC as [H1 H2]; split; [exact H1|apply Hsel; exact H2]).
  destruct HC as (H1 & H2 & H3). refine (conj H1 (conj _ H3)).
  intros x Hx. apply in_or_app. left. apply H2. exact Hx.
Qed.

Lemma SI_flush_install base d async tables wr cur gen comp buf cl acked mark w ms ph g :
  SI base d async tables wr cur gen (Some (w, ms, ph, g)) comp buf cl acked mark ->
  ph <> 0 -> ph <> 1 -> ph <> 2 ->
  SI base d async (tables ++ [g]) wr cur gen None comp buf cl acked mark.
Proof.
  intros H P0 P1 P2. si_destruct H. destruct HF as (F1 & F2 & F3 & F4 & F5).
  assert (ph = 3) as -> by lia. destruct F4 as [-> Hlt]; [lia|]. destruct HG as (G1 & G2 & G3).
  si_split; try assumption.
  - exact I.
  - unfold IT in *. rewrite HT. simpl. rewrite app_nil_r. symmetry. apply eff_tables_snoc.
    intros i todo -> x Hx. destruct HC as (_ & Hincl & _). apply Hlt, Hincl, Hx.
  - split; [exact G1|]. split.
    + intros x Hx. apply in_app_or in Hx. destruct Hx as [Hx|[<-|[]]]; [apply G2; exact Hx|lia].
    + apply nsorted_snoc. split; assumption.
  - apply IC_tables_snoc. exact HC.
Qed.

(* ---- the compactor *)
Lemma IC_noflag_inputs d comp tables :
  IC (k_comp d) (k_tabs d) (ctabs d) comp tables ->
  match comp with CFlagged _ _ => False | _ => True end -> inputs_of d = [].
Proof.
  unfold IC, inputs_of. intros HC Hc. destruct comp as [|i m|i m|i m|i todo]; try contradiction.
  - rewrite HC. reflexivity.
  - destruct HC as [E _]. rewrite E. reflexivity.
  - destruct HC as [E _]. rewrite E. reflexivity.
  - destruct HC as [E _]. rewrite E. reflexivity.
Qed.

Lemma data_of_ctabs d t : DInv d -> inputs_of d = [] -> In t (ctabs d) -> data_of d (t_gen t) = t_data t.
Proof.
  intros Hi H0 Ht. rewrite (ctabs_noflag d H0) in Ht. apply filter_In in Ht. destruct Ht as [Ht _].
  unfold data_of. rewrite (find_tab_In (t_gen t) (k_tabs d) t (di_gs d Hi) Ht eq_refl). reflexivity.
Qed.

Lemma SI_comp_start base d async tables wr cur gen fl buf cl acked mark skip len d' inputs :
  SI base d async tables wr cur gen fl CIdle buf cl acked mark ->
  firstn len (skipn skip tables) = inputs -> inputs <> [] ->
  fs_apply d OCompMkdir = Some d' ->
  SI base d' async tables wr cur gen fl
     (CStarted inputs (match skip with
                       | O => drop_tombstones (lt_union (map (data_of d) inputs))
                       | _ => keep_tombstones (lt_union (map (data_of d) inputs)) end)) buf cl acked mark.
Proof.
  intros H Einp Hne Hap. set (u := lt_union (map (data_of d) inputs)). si_destruct H.
  assert (inputs_of d = []) as H0 by (apply (IC_noflag_inputs d CIdle tables HC); exact I).
  simpl in HC. assert (d' = mkDisk (k_tabs d) (k_wals d) (Some (mkCd FlagNone [] false))) as Ed.
  { unfold fs_apply in Hap. rewrite HC in Hap. inversion Hap. reflexivity. }
  assert (k_tabs d' = k_tabs d) as Et by (rewrite Ed; reflexivity).
  assert (k_wals d' = k_wals d) as Ew by (rewrite Ed; reflexivity).
  assert (inputs_of d' = []) as H1 by (rewrite Ed; reflexivity).
  destruct (step_comp_plain d OCompMkdir d' HD I H0 Hap Et Ew H1) as [HD' Ect]. clear Et Ew H1.
  unfold SI. unfold wal_records. rewrite Ect. subst d'. cbn [k_tabs k_wals k_comp]. fold (wal_records d).
  si_split; try assumption. split; [reflexivity|].
  (* the selected run inside the complete tables *)
  unfold IT in HT. simpl eff_tables in HT.
  assert (tables = firstn skip tables ++ inputs ++ skipn len (skipn skip tables)) as Etab.
  { rewrite <- Einp. rewrite firstn_skipn, firstn_skipn. reflexivity. }
  rewrite Etab in HT at 1. rewrite <- !app_assoc in HT.
  apply map_eq_app in HT. destruct HT as (P & R & Ect' & EP & ER).
  apply map_eq_app in ER. destruct ER as (I & X & ER & EI & EX). subst R.
  exists P, I, X. split; [exact Ect'|]. split; [exact EI|]. split; [exact Hne|]. split.
  - assert (map (data_of d) inputs = map t_data I) as Emap.
    { rewrite <- EI, map_map. apply map_ext_in. intros t Ht. apply data_of_ctabs; auto.
      rewrite Ect'. apply in_or_app. right. apply in_or_app. left. exact Ht. }
    unfold u. rewrite Emap. destruct skip as [|n].
    + simpl in EP. destruct P; [reflexivity|discriminate].
    + destruct P as [|p P]; [|reflexivity]. exfalso. simpl in EP.
      destruct tables as [|x tables]; [|discriminate]. apply Hne. rewrite <- Einp. destruct len; reflexivity.
  - intros x Hx. rewrite Etab. apply in_or_app. right. apply in_or_app. left. exact Hx.
Qed.

Lemma CompSel_sorted ct tables inputs merged : CompSel ct tables inputs merged -> lsorted merged.
Proof. intros (P & I & X & _ & _ & _ & -> & _). apply mk_merged_sorted. apply lt_union_sorted. Qed.

(* a compaction directory effect that keeps the flag unreadable *)
Lemma SI_comp_plain base d async tables wr cur gen fl comp comp' buf cl acked mark o d' :
  SI base d async tables wr cur gen fl comp buf cl acked mark ->
  match comp with CFlagged _ _ => False | _ => True end ->
  match comp' with CFlagged _ _ => False | _ => True end ->
  fs_apply d o = Some d' -> op_ok d o ->
  k_tabs d' = k_tabs d -> k_wals d' = k_wals d -> inputs_of d' = [] ->
  IC (k_comp d') (k_tabs d) (ctabs d) comp' tables ->
  SI base d' async tables wr cur gen fl comp' buf cl acked mark.
Proof.
  intros H Hc Hc' Hap Hok Et Ew H1 HC'. si_destruct H.
  assert (inputs_of d = []) as H0 by (apply (IC_noflag_inputs d comp tables HC); exact Hc).
  destruct (step_comp_plain d o d' HD Hok H0 Hap Et Ew H1) as [HD' Ect].
  unfold SI. unfold wal_records. rewrite Ect, Et, Ew. fold (wal_records d).
  si_split; try assumption.
  unfold IT in *. rewrite HT. destruct comp, comp'; try contradiction; reflexivity.
Qed.

Definition triple (g : N) : list fsop := [OTblUnlink g false; OTblUnlink g true; OTblGone g].

Lemma todo_ok_init inputs l : incl l inputs -> todo_ok inputs (flat_map triple l ++ [OCompRename]).
Proof.
  induction l as [|g l IH]; intros Hincl; simpl; [reflexivity|].
  assert (In g inputs) as Hg by (apply Hincl; left; reflexivity).
  split; [exact Hg|]. split; [eexists; reflexivity|]. split; [exact Hg|]. split; [exact Hg|].
  apply IH. intros x Hx. apply Hincl. right. exact Hx.
Qed.

Lemma IF_ext ct ct' fl cur gen tables :
  kv_eq (tabs_get ct') (tabs_get ct) -> IF ct fl cur gen tables -> IF ct' fl cur gen tables.
Proof.
  intros He. unfold IF. destruct fl as [[[[w ms] ph] g]|]; [|auto].
  intros (F1 & F2 & F3 & F4 & F5). refine (conj F1 (conj F2 (conj F3 (conj F4 _)))).
  intros Hph. eapply kv_eq_trans; [apply kv_after_ext; exact He|].
  eapply kv_eq_trans; [apply F5; exact Hph|]. apply kv_eq_sym. exact He.
Qed.

Lemma filter_run A g0 rest B :
  nsorted (A ++ (g0 :: rest) ++ B) ->
  filter (fun g => negb (mem_gen g rest)) (A ++ (g0 :: rest) ++ B) = A ++ g0 :: B.
Proof.
  intros Hs. apply nsorted_app_inv in Hs. destruct Hs as (_ & Hs & HA).
  simpl in Hs. inversion Hs as [|? ? Hs' Hg0]; subst. rewrite Forall_forall in Hg0.
  apply nsorted_app_inv in Hs'. destruct Hs' as (_ & _ & HB).
  rewrite !filter_app. simpl.
  rewrite (filter_true _ A), (filter_false _ rest), (filter_true _ B).
  - assert (mem_gen g0 rest = false) as ->; [|reflexivity].
    apply mem_gen_false. intros Hin. assert (g0 < g0) by (apply Hg0; apply in_or_app; left; exact Hin). lia.
  - intros x Hx. apply negb_true_iff, mem_gen_false. intros Hin. specialize (HB x x Hin Hx). lia.
  - intros x Hx. apply negb_false_iff, mem_gen_In. exact Hx.
  - intros x Hx. apply negb_true_iff, mem_gen_false. intros Hin.
    assert (x < x) by (apply HA; [exact Hx|right; apply in_or_app; left; exact Hin]). lia.
Qed.

Lemma fl_tab_lt ct fl cur gen tables x :
  IF ct fl cur gen tables -> In x (fl_tab fl) -> forall y, In y tables -> y < x.
Proof.
  unfold IF, fl_tab. destruct fl as [[[[w ms] ph] g]|]; [|intros _ []].
  intros (_ & _ & _ & F4 & _) Hin. destruct (N.ltb_spec ph 2); [contradiction|].
  destruct Hin as [<-|[]]. apply F4. lia.
Qed.

Lemma SI_comp_flag base d async tables wr cur gen fl inputs merged buf cl acked mark d' :
  SI base d async tables wr cur gen fl (CFlagBad inputs merged) buf cl acked mark ->
  fs_apply d (OCompFlag (FlagGood inputs)) = Some d' ->
  SI base d' async tables wr cur gen fl (CFlagged inputs (flat_map triple inputs ++ [OCompRename])) buf cl acked mark.
Proof.
  intros H Hap. si_destruct H.
  assert (inputs_of d = []) as H0 by (apply (IC_noflag_inputs d _ tables HC); exact I).
  destruct HC as [Ec (P & I & X & Ect & EI & Hne & Em & Hincl)].
  destruct inputs as [|g0 rest]; [contradiction|].
  destruct (step_flag_good d P I X g0 rest FlagBad merged d' HD H0 Ect EI Ec Hap) as (HD' & Ect' & Ew & Et & Ec').
  assert (Forall (fun t => lsorted (t_data t)) I) as HsI.
  { pose proof (ctabs_data_sorted d HD) as Hs. rewrite Ect in Hs. apply Forall_app in Hs. destruct Hs as [_ Hs].
    apply Forall_app in Hs. apply Hs. }
  assert (kv_eq (tabs_get (ctabs d')) (tabs_get (ctabs d))) as Hview.
  { intros k. rewrite Ect', Ect. apply flag_view; assumption. }
  unfold SI. unfold wal_records. rewrite Ew, Et, Ec'. fold (wal_records d). si_split; try assumption.
  - destruct HV as (p & Hp & Hv & Hm). exists p. split; [exact Hp|]. split; [|exact Hm].
    eapply kv_eq_trans; [apply kv_after_ext; exact Hview|exact Hv].
  - eapply IF_ext; eassumption.
  - unfold IT in *. simpl eff_tables in *.
    pose proof (gsorted_ctabs d HD) as Hgs. apply gsorted_nsorted in Hgs.
    rewrite Ect, !map_app, EI in Hgs, HT. rewrite Ect'. rewrite map_app. cbn [map t_gen].
    rewrite <- (filter_run _ _ _ _ Hgs), HT, filter_app. f_equal.
    apply filter_true. intros x Hx. apply negb_true_iff, mem_gen_false. intros Hin.
    assert (g0 :: rest <> [] /\ x < x) as [_ Hlt]; [|lia]. split; [discriminate|].
    eapply fl_tab_lt; [exact HF|exact Hx|]. apply Hincl. right. exact Hin.
  - unfold IC. split; [discriminate|]. split; [exact Hincl|]. split; [apply (todo_ok_init (g0 :: rest)), incl_refl|].
    assert (flat_map triple (g0 :: rest) ++ [OCompRename] <> []) as Hnn.
    { intros E. apply app_eq_nil in E. destruct E as [_ E]. discriminate. }
    split; [intros E; contradiction|]. split.
    + intros _. split; [apply in_or_app; right; left; reflexivity|]. exists merged. reflexivity.
    + split.
      * intros t Ht Hin _. apply in_or_app. left. apply in_flat_map. exists (t_gen t). split; [exact Hin|].
        right. right. left. reflexivity.
      * intros t Ht Hh. rewrite (inputs_nil_nohalf d HD H0 t Ht) in Hh. discriminate.
Qed.

Lemma IC_flagged_comp d inputs o todo tables :
  IC (k_comp d) (k_tabs d) (ctabs d) (CFlagged inputs (o :: todo)) tables ->
  exists merged, k_comp d = Some (mkCd (FlagGood inputs) merged true) /\ inputs_of d = inputs.
Proof.
  intros (_ & _ & _ & _ & H5 & _). destruct H5 as [_ (merged & E)]; [discriminate|].
  exists merged. split; [exact E|]. unfold inputs_of. rewrite E. reflexivity.
Qed.

Lemma SI_comp_todo base d async tables wr cur gen fl inputs o todo buf cl acked mark d' :
  SI base d async tables wr cur gen fl (CFlagged inputs (o :: todo)) buf cl acked mark ->
  fs_apply d o = Some d' ->
  SI base d' async tables wr cur gen fl (CFlagged inputs todo) buf cl acked mark.
Proof.
  intros H Hap. si_destruct H.
  destruct (IC_flagged_comp d inputs o todo tables HC) as (merged & Ec & Ein).
  destruct HC as (H1 & H2 & H3 & H4 & H5 & H6 & H7).
  destruct H5 as [HinR _]; [discriminate|]. destruct HG as (G1 & G2 & G3).
  destruct o as [n m|n| |g|g data|g b|g| |mg|f| | |]; simpl in H3; try contradiction.
  - (* unlink *)
    assert (In g inputs /\ todo_ok inputs todo /\ (b = false -> exists r', todo = OTblUnlink g true :: r')) as (Hg & Hok & Hnext).
    { destruct b; [destruct H3 as [A B]|destruct H3 as (A & B & C)]; repeat split; auto. discriminate. }
    assert (mem_gen g (inputs_of d) = true) as Hm by (rewrite Ein; apply mem_gen_In; exact Hg).
    destruct (step_unlink d g b d' HD Hm Hap) as (HD' & Ect & Ew & Ec' & Et).
    destruct HinR as [E|HinR]; [discriminate|].
    assert (todo <> []) as Hnn by (intros ->; contradiction).
    unfold SI. unfold wal_records. rewrite Ect, Ew, Ec', Et. fold (wal_records d). si_split; try assumption.
    + split; [|split; assumption]. intros t Ht. apply in_map_iff in Ht. destruct Ht as (y & <- & Hy).
      rewrite unlink_at_gen. apply G1. exact Hy.
    + refine (conj H1 (conj H2 (conj Hok (conj _ (conj _ (conj _ _)))))).
      * intros E. contradiction.
      * intros _. split; [exact HinR|]. exists merged. exact Ec.
      * intros t Ht Hin _. apply in_map_iff in Ht. destruct Ht as (y & <- & Hy). rewrite unlink_at_gen in *.
        destruct (H6 y Hy Hin) as [E|Hi]; [discriminate|discriminate|exact Hi].
      * intros t Ht Hh. apply in_map_iff in Ht. destruct Ht as (y & <- & Hy). rewrite unlink_at_gen.
        destruct (N.eq_dec (t_gen y) g) as [E|E].
        -- destruct b.
           ++ unfold unlink_at, has_gen in Hh. rewrite E, N.eqb_refl in Hh. discriminate.
           ++ destruct (Hnext eq_refl) as (r' & ->). rewrite E. left. reflexivity.
        -- rewrite unlink_at_other in Hh by exact E.
           destruct (H7 y Hy Hh) as [E'|Hi]; [|exact Hi]. inversion E'. congruence.
  - (* gone *)
    destruct H3 as [Hg Hok].
    assert (mem_gen g (inputs_of d) = true) as Hm by (rewrite Ein; apply mem_gen_In; exact Hg).
    destruct (step_gone d g d' HD Hm Hap) as (HD' & Ect & Ew & Ec' & Et).
    destruct HinR as [E|HinR]; [discriminate|].
    assert (todo <> []) as Hnn by (intros ->; contradiction).
    unfold SI. unfold wal_records. rewrite Ect, Ew, Ec', Et. fold (wal_records d). si_split; try assumption.
    + split; [|split; assumption]. intros t Ht. apply filter_In in Ht. apply G1. apply Ht.
    + refine (conj H1 (conj H2 (conj Hok (conj _ (conj _ (conj _ _)))))).
      * intros E. contradiction.
      * intros _. split; [exact HinR|]. exists merged. exact Ec.
      * intros t Ht Hin _. apply filter_In in Ht. destruct Ht as [Ht Hng].
        destruct (H6 t Ht Hin) as [E|Hi]; [discriminate| |exact Hi].
        inversion E as [E']. unfold has_gen in Hng. rewrite E', N.eqb_refl in Hng. discriminate.
      * intros t Ht Hh. apply filter_In in Ht. destruct Ht as [Ht _].
        destruct (H7 t Ht Hh) as [E|Hi]; [discriminate|exact Hi].
  - (* rename *)
    subst todo.
    assert (forall t, In t (k_tabs d) -> mem_gen (t_gen t) (inputs_of d) = false) as Hnot.
    { intros t Ht. apply mem_gen_false. rewrite Ein. intros Hin.
      destruct (H6 t Ht Hin) as [E|[]]; discriminate. }
    destruct (step_rename d d' HD Hnot Hap) as (HD' & Ect & Ew & Ec' & (g0 & rest & m & c & Ec2 & Et)).
    rewrite Ec in Ec2. clear Ein. injection Ec2 as Ei Em Ecc. subst inputs m c.
    unfold SI. unfold wal_records. rewrite Ect, Ew, Ec', Et. fold (wal_records d). si_split; try assumption.
    + split; [|split; assumption]. intros t Ht. apply In_insert in Ht. destruct Ht as [->|Ht]; [|apply G1; exact Ht].
      simpl. apply G2, H2. left. reflexivity.
    + refine (conj H1 (conj H2 (conj I (conj _ (conj _ (conj _ _)))))).
      * reflexivity.
      * intros E. contradiction.
      * intros t Ht Hin E. contradiction.
      * intros t Ht Hh. apply In_insert in Ht. destruct Ht as [->|Ht]; [discriminate|].
        destruct (H7 t Ht Hh) as [E|[]]. discriminate.
Qed.

Lemma SI_comp_done base d async tables wr cur gen fl g0 rest buf cl acked mark :
  SI base d async tables wr cur gen fl (CFlagged (g0 :: rest) []) buf cl acked mark ->
  SI base d async (filter (fun g => negb (mem_gen g rest)) tables) wr cur gen fl CIdle buf cl acked mark.
Proof.
  intros H. si_destruct H. destruct HC as (H1 & H2 & H3 & H4 & _). destruct HG as (G1 & G2 & G3).
  si_split; try assumption.
  - unfold IF in *. destruct fl as [[[[w ms] ph] g]|]; [|exact I].
    destruct HF as (F1 & F2 & F3 & F4 & F5). refine (conj F1 (conj F2 (conj F3 (conj _ F5)))).
    intros Hph. destruct (F4 Hph) as [Eg Hlt]. split; [exact Eg|].
    intros x Hx. apply filter_In in Hx. apply Hlt. apply Hx.
  - split; [exact G1|]. split; [|apply nsorted_filter; exact G3].
    intros x Hx. apply filter_In in Hx. apply G2. apply Hx.
  - apply H4. reflexivity.
Qed.

Lemma SI_comp_written base d async tables wr cur gen fl inputs merged buf cl acked mark d' :
  SI base d async tables wr cur gen fl (CStarted inputs merged) buf cl acked mark ->
  fs_apply d (OCompWritten merged) = Some d' ->
  SI base d' async tables wr cur gen fl (CWritten inputs merged) buf cl acked mark.
Proof.
  intros H Hap. pose proof H as H'. si_destruct H'. destruct HC as [Ec Hsel].
  assert (d' = mkDisk (k_tabs d) (k_wals d) (Some (mkCd FlagNone merged true))) as ->.
  { unfold fs_apply in Hap. rewrite Ec in Hap. inversion Hap. reflexivity. }
  eapply SI_comp_plain; [exact H|exact I|exact I|exact Hap| |reflexivity|reflexivity|reflexivity|].
  - simpl. eapply CompSel_sorted. exact Hsel.
  - split; [reflexivity|exact Hsel].
Qed.

Lemma SI_comp_flagbad base d async tables wr cur gen fl inputs merged buf cl acked mark d' :
  SI base d async tables wr cur gen fl (CWritten inputs merged) buf cl acked mark ->
  fs_apply d (OCompFlag FlagBad) = Some d' ->
  SI base d' async tables wr cur gen fl (CFlagBad inputs merged) buf cl acked mark.
Proof.
  intros H Hap. pose proof H as H'. si_destruct H'.
  assert (inputs_of d = []) as H0 by (apply (IC_noflag_inputs d _ tables HC); exact I).
  destruct HC as [Ec Hsel].
  assert (d' = mkDisk (k_tabs d) (k_wals d) (Some (mkCd FlagBad merged true))) as ->.
  { unfold fs_apply in Hap. rewrite Ec in Hap. inversion Hap. reflexivity. }
  eapply SI_comp_plain; [exact H|exact I|exact I|exact Hap| |reflexivity|reflexivity|reflexivity|].
  - simpl. split; [apply inputs_nil_nohalf; assumption|exact I].
  - split; [reflexivity|exact Hsel].
Qed.

(* ---- one step of the session machine *)
Lemma SInv_step base s a s' : SInv base s -> sstep s a = Some s' -> SInv base s'.
Proof.
  intros H Hs. destruct s as [d async tables wr cur gen fl comp buf cl acked mark].
  unfold SInv in *. sproj_in H. unfold sstep in Hs. sproj_in Hs.
  destruct a as [m| | | |n| | |skip len|].
  - (* SBegin *)
    destruct cl; try discriminate. destruct (mut_ok m); [|discriminate]. inversion Hs. unfold set_client. sproj.
    eapply SI_begin; exact H.
  - (* SLog *)
    destruct cl as [|m|m|m]; try discriminate. destruct async.
    + inversion Hs. sproj. eapply SI_log_async; exact H.
    + destruct (fs_apply d (OWalAppend cur m)) as [d1|] eqn:Hap; [|discriminate]. inversion Hs.
      unfold set_client, set_disk. sproj.
      assert (buf = []) as -> by (si_destruct H; apply HB; reflexivity).
      eapply SI_append with (ms := [m]); [exact H| | |reflexivity].
      * cbn [append_all]. rewrite Hap. reflexivity.
      * intros p cf Hp Hcf Hm. simpl in *. rewrite !app_nil_r in *. subst p cf.
        split; [reflexivity|]. split; [reflexivity|]. rewrite app_length. lia.
  - (* SApply *)
    destruct cl as [|m|m|m]; try discriminate. inversion Hs. sproj. eapply SI_apply; exact H.
  - (* SReturn *)
    destruct cl as [|m|m|m]; try discriminate. inversion Hs. sproj. eapply SI_return; exact H.
  - (* SBufFlush *)
    destruct async; [|discriminate].
    destruct (append_all d cur (firstn n buf)) as [d1|] eqn:Hap; [|discriminate]. inversion Hs. sproj.
    eapply SI_append; [exact H|exact Hap| |discriminate].
    intros p cf Hp Hcf Hm. rewrite <- !app_assoc, firstn_skipn. split; [exact Hp|]. split; [exact Hcf|].
    rewrite app_length. lia.
  - (* SRotate *)
    assert (forall cl0, cl = cl0 -> pending_of cl0 = [] -> fl = None ->
            match append_all d cur buf with
            | Some d1 => Some (mkS d1 async tables [] (cur + 1) gen (Some (cur, wr, 0, 0)) comp [] cl0 acked
                                 (length acked + match cl0 with ClApplied _ => 1 | _ => 0 end)%nat)
            | None => None end = Some s' -> SInv base s') as Hrot.
    { intros cl0 -> Hpend -> Hs0. destruct (append_all d cur buf) as [d1|] eqn:Hap; [|discriminate].
      inversion Hs0. unfold SInv. sproj.
      assert ((length acked + match cl0 with ClApplied _ => 1 | _ => 0 end)%nat = length (acked ++ logged_of cl0)) as ->.
      { rewrite app_length. destruct cl0; simpl; try reflexivity. discriminate. }
      apply SI_rotate_mem with (mark := mark); [|exact Hpend].
      eapply SI_append; [exact H|exact Hap| |reflexivity].
      intros p cf Hp Hcf Hm. rewrite !app_nil_r. split; [exact Hp|]. split; [exact Hcf|].
      rewrite app_length. lia. }
    destruct cl as [|m|m|m]; try discriminate; destruct fl; try discriminate.
    + apply (Hrot ClIdle); auto.
    + apply (Hrot (ClApplied m)); auto.
  - (* SFlush *)
    destruct fl as [[[[w ms] ph] g]|]; [|discriminate]. cbv zeta in Hs.
    destruct (N.eqb_spec ph 0) as [->|P0].
    { destruct ms as [|m0 ms].
      - inversion Hs. unfold SInv. sproj. eapply SI_flush_empty. exact H.
      - destruct (fs_apply d (OTblMkdir (gen + 1))) as [d1|] eqn:Hap; [|discriminate]. inversion Hs.
        unfold SInv. sproj. eapply SI_flush_mkdir; [exact H|discriminate|exact Hap]. }
    destruct (N.eqb_spec ph 1) as [->|P1].
    { destruct (fs_apply d (OTblComplete g (store_of ms))) as [d1|] eqn:Hap; [|discriminate]. inversion Hs.
      unfold SInv. sproj. eapply SI_flush_complete; [exact H|exact Hap]. }
    destruct (N.eqb_spec ph 2) as [->|P2].
    { destruct (fs_apply d (OWalRemove w)) as [d1|] eqn:Hap; [|discriminate]. inversion Hs.
      unfold SInv. sproj. eapply SI_flush_remove; [exact H|exact Hap]. }
    inversion Hs. unfold SInv. sproj. eapply SI_flush_install; eassumption.
  - (* SCompStart *)
    destruct comp; try discriminate.
    destruct (firstn len (skipn skip tables)) as [|i0 irest] eqn:Ein; [discriminate|].
    destruct (fs_apply d OCompMkdir) as [d1|] eqn:Hap; [|discriminate]. injection Hs as Es. subst s'.
    unfold SInv, set_comp. sproj.
    apply (SI_comp_start base d async tables wr cur gen fl buf cl acked mark skip len d1 (i0 :: irest) H Ein);
      [discriminate|exact Hap].
  - (* SComp *)
    destruct comp as [|inputs merged|inputs merged|inputs merged|inputs todo]; [discriminate| | | |].
    + destruct (fs_apply d (OCompWritten merged)) as [d1|] eqn:Hap; [|discriminate]. inversion Hs.
      unfold SInv, set_comp. sproj. eapply SI_comp_written; [exact H|exact Hap].
    + destruct (fs_apply d (OCompFlag FlagBad)) as [d1|] eqn:Hap; [|discriminate]. inversion Hs.
      unfold SInv, set_comp. sproj. eapply SI_comp_flagbad; [exact H|exact Hap].
    + destruct (fs_apply d (OCompFlag (FlagGood inputs))) as [d1|] eqn:Hap; [|discriminate]. inversion Hs.
      unfold SInv, set_comp. sproj. eapply SI_comp_flag; [exact H|exact Hap].
    + destruct todo as [|o todo].
      * destruct inputs as [|g0 rest]; [discriminate|]. inversion Hs. unfold SInv. sproj.
        eapply SI_comp_done; exact H.
      * destruct (fs_apply d o) as [d1|] eqn:Hap; [|discriminate]. inversion Hs.
        unfold SInv, set_comp. sproj. eapply SI_comp_todo; [exact H|exact Hap].
Qed.

Lemma SInv_run base acts : forall s s', SInv base s -> srun s acts = Some s' -> SInv base s'.
Proof.
  induction acts as [|a acts IH]; intros s s' H Hr; simpl in Hr.
  - inversion Hr. subst. exact H.
  - destruct (sstep s a) as [s1|] eqn:Hs; [|discriminate]. eapply IH; [|exact Hr]. eapply SInv_step; eassumption.
Qed.
