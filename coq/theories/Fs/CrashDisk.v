(* Helper lemmas for Fs/CrashFacts.v, part 2: table lists ordered by generation, the disk
   invariant [DInv], and what each atomic effect does to the quantities recovery looks at. *)
From Coq Require Import Lia Sorting.Sorted.
From GoSST Require Import Base.Bytes Base.Order Db.Logical Db.LogicalFacts Fs.Crash Fs.CrashKv.
Local Open Scope N_scope.

(* ---- generic list facts *)
Lemma filter_true {A} (p : A -> bool) l : (forall x, In x l -> p x = true) -> filter p l = l.
Proof.
  induction l as [|x l IH]; intros H; simpl; [reflexivity|].
  rewrite (H x (or_introl eq_refl)). f_equal. apply IH. intros y Hy. apply H. right. exact Hy.
Qed.

Lemma filter_false {A} (p : A -> bool) l : (forall x, In x l -> p x = false) -> filter p l = [].
Proof.
  induction l as [|x l IH]; intros H; simpl; [reflexivity|].
  rewrite (H x (or_introl eq_refl)). apply IH. intros y Hy. apply H. right. exact Hy.
Qed.

Lemma filter_ext_in' {A} (p q : A -> bool) l : (forall x, In x l -> p x = q x) -> filter p l = filter q l.
Proof.
  induction l as [|x l IH]; intros H; simpl; [reflexivity|].
  rewrite (H x (or_introl eq_refl)). rewrite IH; [reflexivity|]. intros y Hy. apply H. right. exact Hy.
Qed.

Lemma filter_map_id {A} (q : A -> bool) (f : A -> A) l :
  (forall t, In t l -> q (f t) = q t) -> (forall t, In t l -> q t = true -> f t = t) ->
  filter q (map f l) = filter q l.
Proof.
  induction l as [|x l IH]; intros H1 H2; simpl; [reflexivity|].
  rewrite (H1 x (or_introl eq_refl)). destruct (q x) eqn:E.
  - rewrite (H2 x (or_introl eq_refl) E). f_equal. apply IH; intros t Ht; [apply H1|apply H2]; right; exact Ht.
  - apply IH; intros t Ht; [apply H1|apply H2]; right; exact Ht.
Qed.

Lemma existsb_false_iff {A} (p : A -> bool) l : existsb p l = false <-> forall x, In x l -> p x = false.
Proof.
  split.
  - intros H x Hx. destruct (p x) eqn:E; [|reflexivity].
    assert (existsb p l = true) as H' by (apply existsb_exists; exists x; auto). congruence.
  - intros H. destruct (existsb p l) eqn:E; [|reflexivity].
    apply existsb_exists in E. destruct E as (x & Hx & Hp). rewrite (H x Hx) in Hp. discriminate.
Qed.

Lemma mem_gen_In g l : mem_gen g l = true <-> In g l.
Proof.
  unfold mem_gen. rewrite existsb_exists. split.
  - intros (x & Hx & E). apply N.eqb_eq in E. subst. exact Hx.
  - intros H. exists g. split; [exact H|apply N.eqb_refl].
Qed.

Lemma mem_gen_false g l : mem_gen g l = false <-> ~ In g l.
Proof.
  rewrite <- mem_gen_In. destruct (mem_gen g l); split; intros H.
  - discriminate.
  - exfalso. apply H. reflexivity.
  - intros H'. discriminate.
  - reflexivity.
Qed.

(* ---- table lists sorted by generation *)
Definition glt (a b : tdir) : Prop := t_gen a < t_gen b.
Definition gsorted (ts : list tdir) : Prop := StronglySorted glt ts.

Lemma In_insert y t ts : In y (insert_tab t ts) <-> y = t \/ In y ts.
Proof.
  induction ts as [|x r IH]; simpl.
  - split; intros [H|H]; auto.
  - destruct (t_gen t <? t_gen x); simpl; [split; intros [H|H]; auto|].
    rewrite IH. split; intros H; tauto.
Qed.

Lemma insert_tab_head t l : Forall (glt t) l -> insert_tab t l = t :: l.
Proof.
  destruct l as [|x l]; intros H; simpl; [reflexivity|].
  inversion H as [|? ? Hx _]; subst. unfold glt in Hx.
  destruct (N.ltb_spec (t_gen t) (t_gen x)); [reflexivity|lia].
Qed.

Lemma insert_tab_last t l : Forall (fun x => t_gen x <= t_gen t) l -> insert_tab t l = l ++ [t].
Proof.
  induction l as [|x l IH]; intros H; simpl; [reflexivity|].
  inversion H as [|? ? Hx Hl]; subst.
  destruct (N.ltb_spec (t_gen t) (t_gen x)); [lia|]. f_equal. apply IH. exact Hl.
Qed.

Lemma insert_tab_app_last t l c : t_gen t < t_gen c -> insert_tab t (l ++ [c]) = insert_tab t l ++ [c].
Proof.
  intros H. induction l as [|x l IH]; simpl.
  - destruct (N.ltb_spec (t_gen t) (t_gen c)); [reflexivity|lia].
  - destruct (t_gen t <? t_gen x); [reflexivity|]. rewrite IH. reflexivity.
Qed.

Lemma filter_insert_false p t ts : p t = false -> filter p (insert_tab t ts) = filter p ts.
Proof.
  intros Hp. induction ts as [|x r IH]; simpl; [rewrite Hp; reflexivity|].
  destruct (t_gen t <? t_gen x); simpl.
  - rewrite Hp. reflexivity.
  - rewrite IH. reflexivity.
Qed.

Lemma gsorted_inv x r : gsorted (x :: r) -> gsorted r /\ Forall (glt x) r.
Proof. intros H. inversion H; subst. split; assumption. Qed.

Lemma filter_insert_true p t ts :
  gsorted ts -> p t = true -> filter p (insert_tab t ts) = insert_tab t (filter p ts).
Proof.
  intros Hs Hp. induction ts as [|x r IH]; simpl; [rewrite Hp; reflexivity|].
  apply gsorted_inv in Hs. destruct Hs as [Hr Hx].
  destruct (N.ltb_spec (t_gen t) (t_gen x)) as [Hlt|Hge]; simpl.
  - rewrite Hp. symmetry.
    change (insert_tab t (filter p (x :: r)) = t :: filter p (x :: r)).
    apply insert_tab_head. apply Forall_filter. constructor; [exact Hlt|].
    eapply Forall_impl; [|exact Hx]. intros y Hy. unfold glt in *. lia.
  - rewrite (IH Hr). destruct (p x); [|reflexivity]. simpl.
    destruct (N.ltb_spec (t_gen t) (t_gen x)); [lia|reflexivity].
Qed.

Lemma find_tab_none g ts : find_tab g ts = None <-> forall t, In t ts -> t_gen t <> g.
Proof.
  unfold find_tab. split.
  - intros H t Ht E. pose proof (find_none _ _ H t Ht) as Hf. unfold has_gen in Hf.
    apply N.eqb_neq in Hf. contradiction.
  - intros H. destruct (find (has_gen g) ts) as [t|] eqn:E; [|reflexivity].
    apply find_some in E. destruct E as [Ht Hg]. unfold has_gen in Hg. apply N.eqb_eq in Hg.
    exfalso. eapply H; eassumption.
Qed.

Lemma find_tab_some g ts t : find_tab g ts = Some t -> In t ts /\ t_gen t = g.
Proof.
  unfold find_tab. intros E. apply find_some in E. destruct E as [Ht Hg].
  unfold has_gen in Hg. apply N.eqb_eq in Hg. auto.
Qed.

Lemma gsorted_unique ts a b : gsorted ts -> In a ts -> In b ts -> t_gen a = t_gen b -> a = b.
Proof.
  induction ts as [|x r IH]; intros Hs Ha Hb E; [contradiction|].
  apply gsorted_inv in Hs. destruct Hs as [Hr Hx]. rewrite Forall_forall in Hx. unfold glt in Hx.
  destruct Ha as [<-|Ha], Hb as [<-|Hb]; auto.
  - specialize (Hx _ Hb). lia.
  - specialize (Hx _ Ha). lia.
Qed.

Lemma find_tab_In g ts t : gsorted ts -> In t ts -> t_gen t = g -> find_tab g ts = Some t.
Proof.
  intros Hs Ht Hg. destruct (find_tab g ts) as [t'|] eqn:E.
  - apply find_tab_some in E. destruct E as [Ht' Hg']. f_equal.
    eapply gsorted_unique; eauto. congruence.
  - exfalso. rewrite find_tab_none in E. eapply E; eassumption.
Qed.

Lemma gsorted_insert t ts : gsorted ts -> find_tab (t_gen t) ts = None -> gsorted (insert_tab t ts).
Proof.
  intros Hs Hn. rewrite find_tab_none in Hn. induction ts as [|x r IH]; simpl.
  - constructor; constructor.
  - apply gsorted_inv in Hs. destruct Hs as [Hr Hx].
    destruct (N.ltb_spec (t_gen t) (t_gen x)) as [Hlt|Hge].
    + constructor; [constructor; assumption|]. constructor; [exact Hlt|].
      eapply Forall_impl; [|exact Hx]. intros y Hy. unfold glt in *. lia.
    + constructor.
      * apply IH; [exact Hr|]. intros y Hy. apply Hn. right. exact Hy.
      * apply Forall_forall. intros y Hy. apply In_insert in Hy. destruct Hy as [->|Hy].
        -- assert (t_gen x <> t_gen t) by (apply Hn; left; reflexivity). unfold glt. lia.
        -- rewrite Forall_forall in Hx. apply Hx. exact Hy.
Qed.

Lemma gsorted_filter p ts : gsorted ts -> gsorted (filter p ts).
Proof. apply filter_sorted. Qed.

Lemma gsorted_map f ts : (forall t, t_gen (f t) = t_gen t) -> gsorted ts -> gsorted (map f ts).
Proof.
  intros Hf. induction ts as [|x r IH]; intros Hs; simpl; [constructor|].
  apply gsorted_inv in Hs. destruct Hs as [Hr Hx]. constructor; [apply IH; exact Hr|].
  apply Forall_forall. intros y Hy. apply in_map_iff in Hy. destruct Hy as (z & <- & Hz).
  rewrite Forall_forall in Hx. unfold glt. rewrite !Hf. apply Hx. exact Hz.
Qed.

Lemma gsorted_app_last ts t : gsorted ts -> Forall (fun x => t_gen x < t_gen t) ts -> gsorted (ts ++ [t]).
Proof.
  induction ts as [|x r IH]; intros Hs Hall; simpl.
  - constructor; constructor.
  - apply gsorted_inv in Hs. destruct Hs as [Hr Hx]. inversion Hall as [|? ? H1 H2]; subst.
    constructor; [apply IH; assumption|]. apply Forall_app. split; [exact Hx|].
    constructor; [exact H1|constructor].
Qed.

(* the table of the largest generation is the last *)
Lemma gsorted_last ts t g :
  gsorted ts -> find_tab g ts = Some t -> (forall x, In x ts -> t_gen x <= g) ->
  exists ts0, ts = ts0 ++ [t] /\ forall x, In x ts0 -> t_gen x < g.
Proof.
  induction ts as [|x r IH]; intros Hs Hf Hmax; [discriminate|].
  apply gsorted_inv in Hs. destruct Hs as [Hr Hx]. rewrite Forall_forall in Hx. unfold glt in Hx.
  unfold find_tab in Hf. simpl in Hf. unfold has_gen in Hf at 1.
  destruct (N.eqb_spec (t_gen x) g) as [E|E].
  - inversion Hf; subst x. destruct r as [|y r].
    + exists []. split; [reflexivity|]. intros z [].
    + exfalso. assert (t_gen y <= g) by (apply Hmax; right; left; reflexivity).
      assert (t_gen t < t_gen y) by (apply Hx; left; reflexivity). lia.
  - destruct (IH Hr Hf) as (ts0 & -> & Hlt).
    { intros z Hz. apply Hmax. right. exact Hz. }
    exists (x :: ts0). split; [reflexivity|]. intros z [<-|Hz]; [|apply Hlt; exact Hz].
    assert (t_gen x <= g) by (apply Hmax; left; reflexivity). lia.
Qed.

Lemma fold_max_ge l : forall a, a <= fold_left N.max l a /\ forall x, In x l -> x <= fold_left N.max l a.
Proof.
  induction l as [|y l IH]; intros a; simpl.
  - split; [lia|]. intros x [].
  - destruct (IH (N.max a y)) as [H1 H2]. split; [lia|].
    intros x [<-|Hx]; [lia|]. apply H2. exact Hx.
Qed.

Lemma max_gen_ge ts t : In t ts -> t_gen t <= max_gen ts.
Proof.
  intros H. unfold max_gen. apply (proj2 (fold_max_ge (map t_gen ts) 0)). apply in_map. exact H.
Qed.

(* ---- the disk invariant *)

Definition wsorted (ws : list (N * list mutation)) : Prop := StronglySorted N.lt (map fst ws).

Definition inputs_of (d : disk) : list N :=
  match k_comp d with Some (mkCd (FlagGood l) _ _) => l | _ => [] end.
Definition notin (d : disk) (t : tdir) : bool := negb (mem_gen (t_gen t) (inputs_of d)).
Definition live (d : disk) : list tdir := filter is_complete (filter (notin d) (k_tabs d)).

Record DInv (d : disk) : Prop := {
  di_gs : gsorted (k_tabs d);
  di_ws : wsorted (k_wals d);
  di_data : Forall (fun t => lsorted (t_data t)) (k_tabs d);
  di_merged : forall c, k_comp d = Some c -> lsorted (cd_merged c);
  di_half : forall t, In t (k_tabs d) -> is_half t = true -> mem_gen (t_gen t) (inputs_of d) = true;
  di_flag : forall l m c, k_comp d = Some (mkCd (FlagGood l) m c) -> l <> [] /\ NoDup l
}.

Lemma finish_comp_eq d :
  finish_comp d = match k_comp d with
                  | Some (mkCd (FlagGood (g0 :: rest)) m c) =>
                      insert_tab (mkT g0 (if c then TComplete else TPartial) m) (filter (notin d) (k_tabs d))
                  | _ => k_tabs d
                  end.
Proof.
  unfold finish_comp, notin, inputs_of. destruct (k_comp d) as [[[| |[|g0 rest]] m c]|]; reflexivity.
Qed.

Lemma filter_notin_nil d : inputs_of d = [] -> filter (notin d) (k_tabs d) = k_tabs d.
Proof. intros H. apply filter_true. intros x _. unfold notin. rewrite H. reflexivity. Qed.

Lemma ctabs_live d :
  gsorted (k_tabs d) ->
  ctabs d = match k_comp d with
            | Some (mkCd (FlagGood (g0 :: _)) m true) => insert_tab (mkT g0 TComplete m) (live d)
            | _ => live d
            end.
Proof.
  intros Hs. unfold ctabs, live. rewrite finish_comp_eq.
  destruct (k_comp d) as [[[| |[|g0 rest]] m c]|] eqn:E;
    try (rewrite filter_notin_nil by (unfold inputs_of; rewrite E; reflexivity); reflexivity).
  destruct c.
  - apply filter_insert_true; [apply gsorted_filter; exact Hs|reflexivity].
  - apply filter_insert_false. reflexivity.
Qed.

Lemma DInv_nohalf d : DInv d -> nohalf d.
Proof.
  intros H. unfold nohalf. apply existsb_false_iff. intros t Ht.
  destruct (is_half t) eqn:Eh; [|reflexivity]. exfalso.
  rewrite finish_comp_eq in Ht.
  destruct (k_comp d) as [[[| |[|g0 rest]] m c]|] eqn:E;
    try (pose proof (di_half d H t Ht Eh) as Hm; unfold inputs_of in Hm; rewrite E in Hm; discriminate).
  apply In_insert in Ht. destruct Ht as [->|Ht].
  - destruct c; discriminate.
  - apply filter_In in Ht. destruct Ht as [Ht Hn]. unfold notin in Hn.
    rewrite (di_half d H t Ht Eh) in Hn. discriminate.
Qed.

Lemma DInv_view d : DInv d -> exists m, view d = Some m /\ kv_eq m (dview d).
Proof. intros H. apply view_dview. apply DInv_nohalf. exact H. Qed.

Lemma DInv_recover d : DInv d -> recover d = Some (mkDisk (ctabs d ++ newtab d) [] None).
Proof. intros H. apply recover_nohalf. apply DInv_nohalf. exact H. Qed.

(* ---- lists of numbers in increasing order *)
Definition nsorted (l : list N) : Prop := StronglySorted N.lt l.

Lemma nsorted_app_inv a b : nsorted (a ++ b) -> nsorted a /\ nsorted b /\ forall x y, In x a -> In y b -> x < y.
Proof.
  induction a as [|z a IH]; simpl; intros H.
  - split; [constructor|]. split; [exact H|]. intros x y [].
  - inversion H as [|? ? Hs Hall]; subst. destruct (IH Hs) as (Ha & Hb & Hab).
    rewrite Forall_forall in Hall. split; [|split; [exact Hb|]].
    + constructor; [exact Ha|]. apply Forall_forall. intros x Hx. apply Hall. apply in_or_app. left. exact Hx.
    + intros x y [<-|Hx] Hy; [apply Hall; apply in_or_app; right; exact Hy|apply Hab; assumption].
Qed.

Lemma nsorted_app a b : nsorted a -> nsorted b -> (forall x y, In x a -> In y b -> x < y) -> nsorted (a ++ b).
Proof.
  induction a as [|z a IH]; simpl; intros Ha Hb Hab; [exact Hb|].
  inversion Ha as [|? ? Hs Hall]; subst. constructor.
  - apply IH; auto.
  - apply Forall_app. split; [exact Hall|]. apply Forall_forall. intros y Hy. apply Hab; auto.
Qed.

Lemma nsorted_filter p l : nsorted l -> nsorted (filter p l).
Proof. apply filter_sorted. Qed.

Lemma nsorted_NoDup l : nsorted l -> NoDup l.
Proof.
  induction l as [|x l IH]; intros H; [constructor|]. inversion H as [|? ? Hs Hall]; subst.
  constructor; [|apply IH; exact Hs]. intros Hin. rewrite Forall_forall in Hall. specialize (Hall x Hin). lia.
Qed.

Definition wnums (ws : list (N * list mutation)) : list N := map fst ws.
