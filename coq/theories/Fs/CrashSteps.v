(* Helper lemmas for Fs/CrashFacts.v, part 5: the effects a session performs, in terms of what
   recovery looks at ([ctabs], [wal_records]). *)
From Coq Require Import Lia Sorting.Sorted.
From GoSST Require Import Base.Bytes Base.Order Db.Logical Db.LogicalFacts Fs.Crash Fs.CrashKv Fs.CrashDisk Fs.CrashOps.
Local Open Scope N_scope.

Lemma gsorted_nsorted ts : gsorted ts <-> nsorted (map t_gen ts).
Proof.
  induction ts as [|t ts IH]; simpl.
  - split; intros _; constructor.
  - split; intros H; inversion H as [|? ? Hs Hall]; subst; constructor; try (apply IH; exact Hs).
    + apply Forall_forall. intros x Hx. apply in_map_iff in Hx. destruct Hx as (y & <- & Hy).
      rewrite Forall_forall in Hall. apply Hall. exact Hy.
    + apply Forall_forall. intros y Hy. rewrite Forall_forall in Hall. apply Hall. apply in_map. exact Hy.
Qed.

Lemma gsorted_finish_comp d : DInv d -> gsorted (finish_comp d).
Proof.
  intros Hi. rewrite finish_comp_eq. destruct (k_comp d) as [[[| |[|g0 rest]] m c]|] eqn:Ec; try apply Hi.
  apply gsorted_insert; [apply gsorted_filter; apply Hi|]. cbn [t_gen].
  apply find_tab_none. intros t Ht E. apply filter_In in Ht. destruct Ht as [_ Hn].
  unfold notin, inputs_of in Hn. rewrite Ec, E in Hn. simpl in Hn. rewrite N.eqb_refl in Hn. discriminate.
Qed.

Lemma gsorted_ctabs d : DInv d -> gsorted (ctabs d).
Proof. intros Hi. apply gsorted_filter. apply gsorted_finish_comp. exact Hi. Qed.

Lemma ctabs_data_sorted d : DInv d -> Forall (fun t => lsorted (t_data t)) (ctabs d).
Proof.
  intros Hi. apply Forall_filter. rewrite finish_comp_eq.
  destruct (k_comp d) as [[[| |[|g0 rest]] m c]|] eqn:Ec; try apply Hi.
  apply Forall_insert; [apply (di_merged d Hi _ Ec)|]. apply Forall_filter. apply Hi.
Qed.

Lemma ctabs_complete_all d t : In t (ctabs d) -> is_complete t = true.
Proof. intros H. apply filter_In in H. apply H. Qed.

(* ---- table effects *)
Lemma step_mkdir d g d' :
  DInv d -> fs_apply d (OTblMkdir g) = Some d' ->
  DInv d' /\ ctabs d' = ctabs d /\ k_wals d' = k_wals d /\ k_comp d' = k_comp d
  /\ k_tabs d' = insert_tab (mkT g TPartial []) (k_tabs d).
Proof.
  intros Hi Hap. assert (DInv d') as Hi' by (eapply DInv_apply; [exact Hi| |exact Hap]; exact I).
  split; [exact Hi'|]. apply ap_mkdir in Hap. destruct Hap as [_ ->]. repeat split.
  apply ctabs_of_live; [apply Hi|apply Hi'|reflexivity|apply live_mkdir].
Qed.

Lemma step_complete d g data d' :
  DInv d -> (forall t, In t (k_tabs d) -> t_gen t <= g) -> (forall x, In x (inputs_of d) -> x < g) ->
  lsorted data -> fs_apply d (OTblComplete g data) = Some d' ->
  DInv d' /\ ctabs d' = ctabs d ++ [mkT g TComplete data] /\ k_wals d' = k_wals d /\ k_comp d' = k_comp d
  /\ k_tabs d' = map (complete_at g data) (k_tabs d).
Proof.
  intros Hi Hmax Hin Hd Hap. assert (DInv d') as Hi' by (eapply DInv_apply; [exact Hi| |exact Hap]; exact Hd).
  split; [exact Hi'|]. apply ap_complete in Hap. destruct Hap as [[x Hf] ->]. repeat split.
  assert (mem_gen g (inputs_of d) = false) as Hnot.
  { apply mem_gen_false. intros H. specialize (Hin g H). lia. }
  rewrite (ctabs_live _ (di_gs _ Hi')), (ctabs_live _ (di_gs _ Hi)). cbn [k_comp].
  rewrite (live_complete d g data x (di_gs _ Hi) Hf Hmax Hnot).
  destruct (k_comp d) as [[[| |[|g0 rest]] m c]|] eqn:Ec; try reflexivity.
  destruct c; [|reflexivity]. apply insert_tab_app_last. simpl.
  apply Hin. unfold inputs_of. rewrite Ec. left. reflexivity.
Qed.

Lemma step_unlink d g b d' :
  DInv d -> mem_gen g (inputs_of d) = true -> fs_apply d (OTblUnlink g b) = Some d' ->
  DInv d' /\ ctabs d' = ctabs d /\ k_wals d' = k_wals d /\ k_comp d' = k_comp d
  /\ k_tabs d' = map (unlink_at g b) (k_tabs d).
Proof.
  intros Hi Hm Hap. assert (DInv d') as Hi'.
  { eapply DInv_apply; [exact Hi| |exact Hap]. destruct b; simpl; auto. }
  split; [exact Hi'|]. apply ap_unlink in Hap. destruct Hap as [_ ->]. repeat split.
  apply ctabs_of_live; [apply Hi|apply Hi'|reflexivity|]. apply live_unlink. apply dead_input. exact Hm.
Qed.

Lemma step_gone d g d' :
  DInv d -> mem_gen g (inputs_of d) = true -> fs_apply d (OTblGone g) = Some d' ->
  DInv d' /\ ctabs d' = ctabs d /\ k_wals d' = k_wals d /\ k_comp d' = k_comp d
  /\ k_tabs d' = remove_tab g (k_tabs d).
Proof.
  intros Hi Hm Hap. assert (DInv d') as Hi' by (eapply DInv_apply; [exact Hi| |exact Hap]; exact I).
  split; [exact Hi'|]. apply ap_gone in Hap. destruct Hap as [_ ->]. repeat split.
  apply ctabs_of_live; [apply Hi|apply Hi'|reflexivity|]. apply live_gone. apply dead_input. exact Hm.
Qed.

Lemma step_rename d d' :
  DInv d -> (forall t, In t (k_tabs d) -> mem_gen (t_gen t) (inputs_of d) = false) ->
  fs_apply d OCompRename = Some d' ->
  DInv d' /\ ctabs d' = ctabs d /\ k_wals d' = k_wals d /\ k_comp d' = None
  /\ exists g0 rest m c, k_comp d = Some (mkCd (FlagGood (g0 :: rest)) m c)
       /\ k_tabs d' = insert_tab (mkT g0 (if c then TComplete else TPartial) m) (k_tabs d).
Proof.
  intros Hi Hnot Hap. assert (DInv d') as Hi'.
  { eapply DInv_apply; [exact Hi| |exact Hap]. intros t Ht. destruct (is_half t) eqn:Eh; [|reflexivity].
    pose proof (Hnot t Ht) as Hn. rewrite (di_half d Hi t Ht Eh) in Hn. discriminate. }
  split; [exact Hi'|]. apply ap_rename in Hap. destruct Hap as (g0 & rest & m & c & Ec & Hf & ->).
  split; [|split; [reflexivity|split; [reflexivity|exists g0, rest, m, c; auto]]].
  rewrite ctabs_noflag by reflexivity. unfold ctabs. rewrite finish_comp_eq, Ec. cbn [k_tabs].
  rewrite (filter_true (notin d)); [reflexivity|]. intros t Ht. unfold notin. rewrite (Hnot t Ht). reflexivity.
Qed.

(* compaction directory effects that neither start from nor lead to a readable flag *)
Lemma step_comp_plain d o d' :
  DInv d -> op_ok d o -> inputs_of d = [] -> fs_apply d o = Some d' ->
  k_tabs d' = k_tabs d -> k_wals d' = k_wals d -> inputs_of d' = [] ->
  DInv d' /\ ctabs d' = ctabs d.
Proof.
  intros Hi Hok H0 Hap Ht Hw H1. split; [eapply DInv_apply; eassumption|].
  rewrite !ctabs_noflag by assumption. rewrite Ht. reflexivity.
Qed.

Lemma inputs_nil_nohalf d : DInv d -> inputs_of d = [] -> nohalf_tabs d.
Proof.
  intros Hi H0 t Ht. destruct (is_half t) eqn:Eh; [|reflexivity].
  pose proof (di_half d Hi t Ht Eh) as Hm. rewrite H0 in Hm. discriminate.
Qed.

(* ---- the WAL *)
Definition wfile (n : N) (recs : list mutation) : list (N * list mutation) :=
  match recs with [] => [] | _ => [(n, recs)] end.

Lemma wfile_snoc n cf m : wfile n (cf ++ [m]) = [(n, cf ++ [m])].
Proof. destruct cf; reflexivity. Qed.

Lemma wfile_records n recs : flat_map snd (wfile n recs) = recs.
Proof. destruct recs; simpl; [reflexivity|]. rewrite app_nil_r. reflexivity. Qed.

Lemma disk_eta d : mkDisk (k_tabs d) (k_wals d) (k_comp d) = d.
Proof. destruct d; reflexivity. Qed.

Lemma append_shape d F n cf m :
  k_wals d = F ++ wfile n cf -> (forall w, In w F -> fst w < n) ->
  fs_apply d (OWalAppend n m) = Some (mkDisk (k_tabs d) (F ++ wfile n (cf ++ [m])) (k_comp d)).
Proof.
  intros Hw HF. unfold fs_apply. rewrite wfile_snoc. destruct cf as [|c cf].
  - simpl in Hw. rewrite app_nil_r in Hw. rewrite Hw.
    destruct (rev F) as [|[n' recs] older] eqn:E.
    + assert (F = []) as -> by (rewrite <- (rev_involutive F), E; reflexivity). reflexivity.
    + assert (In (n', recs) F) as Hin by (apply in_rev; rewrite E; left; reflexivity).
      specialize (HF _ Hin). simpl in HF.
      destruct (N.eqb_spec n' n); [lia|]. destruct (N.ltb_spec n' n); [reflexivity|lia].
  - simpl in Hw. rewrite Hw, rev_app_distr. simpl. rewrite N.eqb_refl, rev_involutive. reflexivity.
Qed.

Lemma append_all_shape ms : forall d F n cf,
  k_wals d = F ++ wfile n cf -> (forall w, In w F -> fst w < n) ->
  append_all d n ms = Some (mkDisk (k_tabs d) (F ++ wfile n (cf ++ ms)) (k_comp d)).
Proof.
  induction ms as [|m ms IH]; intros d F n cf Hw HF; cbn [append_all].
  - rewrite app_nil_r, <- Hw, disk_eta. reflexivity.
  - rewrite (append_shape d F n cf m Hw HF).
    rewrite (IH _ F n (cf ++ [m])); [|reflexivity|exact HF]. cbn [k_tabs k_comp].
    rewrite <- app_assoc. reflexivity.
Qed.

Lemma wsorted_shape F n x : wsorted F -> (forall w, In w F -> fst w < n) -> wsorted (F ++ wfile n x).
Proof.
  intros Hs HF. unfold wsorted. rewrite map_app. apply nsorted_app; [exact Hs| |].
  - destruct x; simpl; constructor; constructor.
  - intros a b Ha Hb. apply in_map_iff in Ha. destruct Ha as (w & <- & Hw).
    destruct x; simpl in Hb; [contradiction|]. destruct Hb as [<-|[]]. apply HF. exact Hw.
Qed.

Lemma wsorted_wfile n x : wsorted (wfile n x).
Proof. destruct x; simpl; unfold wsorted; simpl; constructor; constructor. Qed.

(* ---- the success flag becomes readable *)
Lemma gsorted_app_inv a b :
  gsorted (a ++ b) -> gsorted a /\ gsorted b /\ forall x y, In x a -> In y b -> t_gen x < t_gen y.
Proof.
  rewrite !gsorted_nsorted, map_app. intros H. apply nsorted_app_inv in H. destruct H as (Ha & Hb & Hab).
  split; [exact Ha|]. split; [exact Hb|]. intros x y Hx Hy. apply Hab; apply in_map; assumption.
Qed.

Lemma insert_tab_mid M P X :
  (forall t, In t P -> t_gen t < t_gen M) -> (forall t, In t X -> t_gen M < t_gen t) ->
  insert_tab M (P ++ X) = P ++ M :: X.
Proof.
  intros HP HX. induction P as [|p P IH]; simpl.
  - apply insert_tab_head. apply Forall_forall. exact HX.
  - assert (t_gen p < t_gen M) by (apply HP; left; reflexivity).
    destruct (N.ltb_spec (t_gen M) (t_gen p)); [lia|]. f_equal. apply IH. intros t Ht. apply HP. right. exact Ht.
Qed.

Lemma filter_comm {A} (p q : A -> bool) l : filter p (filter q l) = filter q (filter p l).
Proof. rewrite !filter_filter'. apply filter_ext. intros x. apply andb_comm. Qed.

Definition mk_merged (P : list tdir) (u : ltable) : ltable :=
  match P with [] => drop_tombstones u | _ => keep_tombstones u end.

Lemma mk_merged_sorted P u : lsorted u -> lsorted (mk_merged P u).
Proof. intros H. destruct P; simpl; [apply drop_sorted|apply keep_sorted]; exact H. Qed.

Lemma tpairs_app a b : tpairs (a ++ b) = tpairs a ++ tpairs b.
Proof. apply map_app. Qed.

Lemma flag_view P I X g0 merged k :
  Forall (fun t => lsorted (t_data t)) I -> merged = mk_merged P (lt_union (map t_data I)) ->
  tabs_get (P ++ mkT g0 TComplete merged :: X) k = tabs_get (P ++ I ++ X) k.
Proof.
  intros Hs ->. unfold tabs_get. fold (tpairs (P ++ I ++ X)). fold (tpairs (P ++ mkT g0 TComplete (mk_merged P (lt_union (map t_data I))) :: X)).
  change (P ++ ?m :: X) with (P ++ [m] ++ X). rewrite !tpairs_app, !tables_get_app.
  destruct (tables_get (tpairs X) k) as [vx|]; [reflexivity|]. cbn [orelse].
  simpl tpairs at 1. rewrite tables_get_one.
  assert (Forall (fun t => lsorted (snd t)) (tpairs I)) as Hs'.
  { apply Forall_forall. intros x Hx. apply in_map_iff in Hx. destruct Hx as (y & <- & Hy). simpl.
    rewrite Forall_forall in Hs. apply Hs. exact Hy. }
  assert (map t_data I = map snd (tpairs I)) as Emap.
  { unfold tpairs. rewrite map_map. reflexivity. }
  rewrite !reads_as_eff. destruct P as [|p P]; simpl mk_merged.
  - simpl tpairs. rewrite tables_get_nil.
    rewrite lt_get_drop by apply lt_union_sorted. rewrite Emap, lt_union_get by exact Hs'.
    destruct (tables_get (tpairs I) k) as [[[|b r]|]|]; reflexivity.
  - rewrite lt_get_keep, Emap, lt_union_get by exact Hs'. apply eff_orelse_keep.
Qed.

Lemma step_flag_good d P I X g0 rest fl merged d' :
  DInv d -> inputs_of d = [] -> ctabs d = P ++ I ++ X -> map t_gen I = g0 :: rest ->
  k_comp d = Some (mkCd fl merged true) ->
  fs_apply d (OCompFlag (FlagGood (g0 :: rest))) = Some d' ->
  DInv d' /\ ctabs d' = P ++ mkT g0 TComplete merged :: X /\ k_wals d' = k_wals d /\ k_tabs d' = k_tabs d
  /\ k_comp d' = Some (mkCd (FlagGood (g0 :: rest)) merged true).
Proof.
  intros Hi H0 Hct HI Ec Hap.
  pose proof (gsorted_ctabs d Hi) as Hgs. rewrite Hct in Hgs.
  apply gsorted_app_inv in Hgs. destruct Hgs as (HgP & HgIX & HPIX).
  apply gsorted_app_inv in HgIX. destruct HgIX as (HgI & HgX & HIX).
  assert (DInv d') as Hi'.
  { eapply DInv_apply; [exact Hi| |exact Hap]. split; [apply inputs_nil_nohalf; assumption|]. split; [discriminate|].
    rewrite <- HI. apply nsorted_NoDup. apply gsorted_nsorted. exact HgI. }
  assert (d' = mkDisk (k_tabs d) (k_wals d) (Some (mkCd (FlagGood (g0 :: rest)) merged true))) as Ed.
  { unfold fs_apply in Hap. rewrite Ec in Hap. inversion Hap. reflexivity. }
  split; [exact Hi'|]. rewrite (ctabs_live d' (di_gs _ Hi')). rewrite Ed. cbn [k_comp k_wals k_tabs].
  split; [|repeat split].
  unfold live. rewrite filter_comm.
  cbn [k_tabs]. rewrite <- (ctabs_noflag d H0), Hct.
  set (d1 := mkDisk _ _ _).
  assert (forall t, notin d1 t = negb (mem_gen (t_gen t) (map t_gen I))) as Hn.
  { intros t. unfold notin, inputs_of, d1. cbn [k_comp]. rewrite HI. reflexivity. }
  assert (exists i0 I', I = i0 :: I' /\ t_gen i0 = g0) as (i0 & I' & EI & Eg0).
  { destruct I as [|i0 I']; [discriminate|]. simpl in HI. inversion HI. exists i0, I'. auto. }
  rewrite !filter_app.
  rewrite (filter_true (notin d1) P), (filter_false (notin d1) I), (filter_true (notin d1) X).
  - simpl. apply insert_tab_mid; simpl; intros t Ht; rewrite <- Eg0.
    + apply HPIX; [exact Ht|]. apply in_or_app. left. rewrite EI. left. reflexivity.
    + apply HIX; [|exact Ht]. rewrite EI. left. reflexivity.
  - intros t Ht. rewrite Hn. apply negb_true_iff. apply mem_gen_false. intros Hin.
    apply in_map_iff in Hin. destruct Hin as (y & Ey & Hy). specialize (HIX y t Hy Ht). lia.
  - intros t Ht. rewrite Hn. apply negb_false_iff. apply mem_gen_In. apply in_map. exact Ht.
  - intros t Ht. rewrite Hn. apply negb_true_iff. apply mem_gen_false. intros Hin.
    apply in_map_iff in Hin. destruct Hin as (y & Ey & Hy).
    assert (t_gen t < t_gen y) by (apply HPIX; [exact Ht|apply in_or_app; left; exact Hy]). lia.
Qed.
