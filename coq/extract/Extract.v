(* Extraction of the executable model for the correspondence runner.
   Only ExtrOcamlBasic is used: it maps bool, option, unit, list, prod, sumbool, sumor to the
   OCaml types of the same shape and nothing else.  N, positive, nat, Z stay extracted inductives. *)
From Coq Require Import ExtrOcamlBasic.
From GoSST Require Import Base.Bytes Base.Sx Corr.All.
Extraction Language OCaml.
Extraction "model.ml" check_by_id.
